package sx

import (
	"golang.org/x/tools/go/ssa"
)

// Models of the assembly routines in internal/bytealg (no Go bodies) over
// sequences of possibly symbolic bytes, plus the unsafe parts of
// strings.Builder.

func (m *Machine) seqBytes(v Value) []T {
	switch x := v.(type) {
	case Str:
		return m.strBytes(x)
	case Slice:
		out := make([]T, len(x.V))
		for i, e := range x.V {
			t, ok := e.(T)
			if !ok {
				m.unsupported("byte sequence with non-scalar element %s", describe(e))
			}
			out[i] = t
		}
		return out
	}
	m.unsupported("byte sequence from %s", describe(v))
	return nil
}

func (m *Machine) i64(v int) T { return m.F.Const(64, uint64(int64(v))) }

// indexByte: first i with s[i]==c, else -1.
func (m *Machine) indexByte(s []T, c T) T {
	res := m.i64(-1)
	for i := len(s) - 1; i >= 0; i-- {
		res = m.F.Ite(m.F.Eq(s[i], c), m.i64(i), res)
	}
	return res
}

func (m *Machine) lastIndexByte(s []T, c T) T {
	res := m.i64(-1)
	for i := 0; i < len(s); i++ {
		res = m.F.Ite(m.F.Eq(s[i], c), m.i64(i), res)
	}
	return res
}

func (m *Machine) bytesEq(a, b []T) T {
	if len(a) != len(b) {
		return m.F.False
	}
	res := m.F.True
	for i := len(a) - 1; i >= 0; i-- {
		res = m.F.And(m.F.Eq(a[i], b[i]), res)
	}
	return res
}

func (m *Machine) indexSeq(s, sub []T) T {
	n, k := len(s), len(sub)
	if k == 0 {
		return m.i64(0)
	}
	res := m.i64(-1)
	for i := n - k; i >= 0; i-- {
		res = m.F.Ite(m.bytesEq(s[i:i+k], sub), m.i64(i), res)
	}
	return res
}

func (m *Machine) compareSeq(a, b []T) T {
	F := m.F
	n := len(a)
	if len(b) < n {
		n = len(b)
	}
	var res T
	switch {
	case len(a) < len(b):
		res = m.i64(-1)
	case len(a) > len(b):
		res = m.i64(1)
	default:
		res = m.i64(0)
	}
	for i := n - 1; i >= 0; i-- {
		res = F.Ite(F.Eq(a[i], b[i]), res, F.Ite(F.Ult(a[i], b[i]), m.i64(-1), m.i64(1)))
	}
	return res
}

func init() {
	ba := "internal/bytealg."
	register(ba+"IndexByte", func(m *Machine, fr *frame, fn *ssa.Function, args []Value) Value {
		return m.indexByte(m.seqBytes(args[0]), args[1].(T))
	})
	register(ba+"IndexByteString", func(m *Machine, fr *frame, fn *ssa.Function, args []Value) Value {
		return m.indexByte(m.seqBytes(args[0]), args[1].(T))
	})
	register(ba+"LastIndexByte", func(m *Machine, fr *frame, fn *ssa.Function, args []Value) Value {
		return m.lastIndexByte(m.seqBytes(args[0]), args[1].(T))
	})
	register(ba+"LastIndexByteString", func(m *Machine, fr *frame, fn *ssa.Function, args []Value) Value {
		return m.lastIndexByte(m.seqBytes(args[0]), args[1].(T))
	})
	count := func(m *Machine, fr *frame, fn *ssa.Function, args []Value) Value {
		res := m.i64(0)
		c := args[1].(T)
		for _, b := range m.seqBytes(args[0]) {
			res = m.F.Add(res, m.F.Ite(m.F.Eq(b, c), m.i64(1), m.i64(0)))
		}
		return res
	}
	register(ba+"Count", count)
	register(ba+"CountString", count)
	register(ba+"Equal", func(m *Machine, fr *frame, fn *ssa.Function, args []Value) Value {
		return m.bytesEq(m.seqBytes(args[0]), m.seqBytes(args[1]))
	})
	register(ba+"Compare", func(m *Machine, fr *frame, fn *ssa.Function, args []Value) Value {
		return m.compareSeq(m.seqBytes(args[0]), m.seqBytes(args[1]))
	})
	register(ba+"CompareString", func(m *Machine, fr *frame, fn *ssa.Function, args []Value) Value {
		return m.compareSeq(m.seqBytes(args[0]), m.seqBytes(args[1]))
	})
	register(ba+"Index", func(m *Machine, fr *frame, fn *ssa.Function, args []Value) Value {
		return m.indexSeq(m.seqBytes(args[0]), m.seqBytes(args[1]))
	})
	register(ba+"IndexString", func(m *Machine, fr *frame, fn *ssa.Function, args []Value) Value {
		return m.indexSeq(m.seqBytes(args[0]), m.seqBytes(args[1]))
	})
	register(ba+"Cutover", func(m *Machine, fr *frame, fn *ssa.Function, args []Value) Value {
		return m.i64(4)
	})
	register(ba+"MakeNoZero", func(m *Machine, fr *frame, fn *ssa.Function, args []Value) Value {
		n := m.makeLen(fr, args[0], fn.Signature.Params().At(0).Type(), "MakeNoZero")
		out := make([]Value, n)
		z := m.F.Const(8, 0)
		for i := range out {
			out[i] = z
		}
		return Slice{V: out}
	})
	register("bytes.Equal", func(m *Machine, fr *frame, fn *ssa.Function, args []Value) Value {
		return m.bytesEq(m.seqBytes(args[0]), m.seqBytes(args[1]))
	})
	// strings.Builder
	register("(*strings.Builder).copyCheck", nop)
	register("(*strings.Builder).String", func(m *Machine, fr *frame, fn *ssa.Function, args []Value) Value {
		p := args[0].(Ptr)
		if p == nil {
			m.rtPanic(fr, "nil-dereference")
		}
		st := (*p).(Struct)
		buf := st[1].(Slice)
		return m.mkStr(m.seqBytes(buf))
	})
	register("internal/abi.NoEscape", func(m *Machine, fr *frame, fn *ssa.Function, args []Value) Value { return args[0] })
	register("internal/abi.Escape", func(m *Machine, fr *frame, fn *ssa.Function, args []Value) Value { return args[0] })
}

func init() {
	register("internal/stringslite.Clone", func(m *Machine, fr *frame, fn *ssa.Function, args []Value) Value { return args[0] })
	register("strings.Clone", func(m *Machine, fr *frame, fn *ssa.Function, args []Value) Value { return args[0] })
}
