package sx

import (
	"go/token"
	"math"
	"strconv"
	"strings"

	"golang.org/x/tools/go/ssa"
)

// Path merging for pure callees ("function summaries").
//
// A call to a function on the harness's merge list is explored locally: all
// feasible paths through the callee are run one after the other from the same
// caller state (the undo journal restores the heap between them), and their
// results are merged into one value with ite-terms over the local path
// conditions. The caller continues on ONE path. This removes the
// (callee paths) x (caller paths) blow-up for table lookups and comparators.
//
// Soundness conditions, checked: the callee is statically pure (it stores
// only into memory it allocated itself and calls only pure callees), no local
// path panics or aborts, and all results have mergeable shapes. Otherwise the
// call is executed normally (forking globally).

type sumScope struct {
	prefix []int32
	base   int
	queue  [][]int32
	outer  *sumScope
}

func (m *Machine) pushAlt(alt []int32) {
	if m.scope != nil {
		m.scope.queue = append(m.scope.queue, alt)
		return
	}
	m.W.push(m.curH, alt)
}

const maxLocalPaths = 2048

type localResult struct {
	cond T
	val  Value
}

// tryMerged runs fn(args) with local path merging; ok=false means the caller
// must run the call normally.
func (m *Machine) tryMerged(caller *frame, pos token.Pos, fn *ssa.Function, args []Value, env []Value) (res Value, ok bool) {
	if !m.W.pure(fn) {
		m.note("merge: %s is not statically pure; executed with forking", fn.String())
		return nil, false
	}
	// Summary cache: a pure callee applied to the same argument CONTENTS (no
	// pointers among them) yields the same merged result; an entry computed under
	// path condition P is complete for every path condition that contains P.
	ckey, cacheable := m.summaryKey(fn, args, env)
	if cacheable {
		for _, e := range m.sumCache[ckey] {
			if m.pcContains(e.pc) {
				m.Stats.MergedCalls++
				return m.pickClass(e.classes), true
			}
		}
	}
	pc0 := len(m.pc)
	trace0 := len(m.trace)
	depth0 := m.depth
	model0 := m.model
	steps0 := m.steps
	outer := m.scope
	sdepth0 := m.S.Depth()
	var results []localResult
	queue := [][]int32{nil}
	failed := false
	for len(queue) > 0 && !failed {
		pfx := queue[len(queue)-1]
		queue = queue[:len(queue)-1]
		sc := &sumScope{prefix: pfx, base: trace0, outer: outer}
		m.scope = sc
		j0 := len(m.journal)
		m.S.Push()
		var val Value
		func() {
			defer func() {
				if r := recover(); r != nil {
					switch r := r.(type) {
					case pathEnd:
						if r.kind != "infeasible" {
							failed = true
						}
					case *GoPanic:
						failed = true
					default:
						panic(r)
					}
					val = infeasibleMark{}
				}
			}()
			val = m.callSSA2(caller, pos, fn, args, env)
		}()
		// local path condition = conjuncts added since pc0
		cond := m.F.True
		for _, c := range m.pc[pc0:] {
			cond = m.F.And(cond, c)
		}
		// restore caller state. The callee is pure: every journal entry since j0
		// belongs to memory it allocated itself (possibly part of its result), so
		// the entries are dropped, not undone.
		m.journal = m.journal[:j0]
		m.pc = m.pc[:pc0]
		m.trace = m.trace[:trace0]
		m.depth = depth0
		m.S.PopTo(sdepth0)
		m.model = model0
		queue = append(queue, sc.queue...)
		if _, bad := val.(infeasibleMark); !bad {
			results = append(results, localResult{cond, val})
		}
		if len(results)+len(queue) > maxLocalPaths {
			failed = true
		}
	}
	m.scope = outer
	if failed || len(results) == 0 {
		m.steps = steps0
		return nil, false
	}
	// Merge results of equal shape; results of different shapes (typically
	// "(value, true)" vs "(nil, false)") form separate classes, and the caller
	// forks between classes only.
	type class struct {
		cond T
		val  Value
	}
	var classes []*class
	for _, r := range results {
		placed := false
		for _, c := range classes {
			if v, ok := m.ite(r.cond, r.val, c.val); ok {
				c.val = v
				c.cond = m.F.Or(c.cond, r.cond)
				placed = true
				break
			}
		}
		if !placed {
			classes = append(classes, &class{r.cond, r.val})
		}
	}
	m.Stats.MergedCalls++
	m.Stats.MergedPaths += len(results)
	out := make([]sumClass, len(classes))
	for i, c := range classes {
		out[i] = sumClass{c.cond, c.val}
	}
	if cacheable {
		if m.sumCache == nil || m.sumCacheN > 200000 {
			m.sumCache, m.sumCacheN = map[string][]*sumEntry{}, 0
		}
		m.sumCache[ckey] = append(m.sumCache[ckey], &sumEntry{pc: append([]T(nil), m.pc[:pc0]...), classes: out})
		m.sumCacheN++
	}
	return m.pickClass(out), true
}

type sumClass struct {
	cond T
	val  Value
}

type sumEntry struct {
	pc      []T
	classes []sumClass
}

// pickClass forks between result classes of different shape (their conditions
// are exhaustive and mutually exclusive by construction).
func (m *Machine) pickClass(classes []sumClass) Value {
	for i := 0; i < len(classes)-1; i++ {
		if m.Decide(classes[i].cond) {
			return copyVal(classes[i].val)
		}
	}
	return copyVal(classes[len(classes)-1].val)
}

// pcContains reports whether every conjunct of sub is a conjunct of the
// current path condition.
func (m *Machine) pcContains(sub []T) bool {
	if len(sub) > len(m.pc) {
		return false
	}
	// common case: sub is a prefix of the current pc
	pre := true
	for i, c := range sub {
		if m.pc[i] != c {
			pre = false
			break
		}
	}
	if pre {
		return true
	}
	set := make(map[T]bool, len(m.pc))
	for _, c := range m.pc {
		set[c] = true
	}
	for _, c := range sub {
		if !set[c] {
			return false
		}
	}
	return true
}

// summaryKey renders the callee and the deep contents of its arguments; ok is
// false when an argument reaches a pointer, map, closure or opaque value
// (whose pointee contents the key could not see).
func (m *Machine) summaryKey(fn *ssa.Function, args []Value, env []Value) (string, bool) {
	if len(env) > 0 {
		return "", false
	}
	var sb strings.Builder
	sb.WriteString(fn.String())
	for _, a := range args {
		sb.WriteByte('|')
		if !writeContentKey(&sb, a, 0) {
			return "", false
		}
	}
	return sb.String(), true
}

func writeContentKey(sb *strings.Builder, v Value, depth int) bool {
	if depth > 6 {
		return false
	}
	switch x := v.(type) {
	case nil:
		sb.WriteString("nil")
	case T:
		sb.WriteByte('t')
		sb.WriteString(strconv.Itoa(x.ID))
	case Str:
		if x.B == nil {
			sb.WriteString("s")
			sb.WriteString(strconv.Quote(x.S))
		} else {
			sb.WriteString("S[")
			for _, b := range x.B {
				sb.WriteString(strconv.Itoa(b.ID))
				sb.WriteByte(',')
			}
			sb.WriteByte(']')
		}
	case Slice:
		if x.V == nil {
			sb.WriteString("sl-nil")
			return true
		}
		if len(x.V) > 64 {
			return false
		}
		sb.WriteString("sl")
		sb.WriteString(strconv.Itoa(cap(x.V) - len(x.V))) // spare capacity is observable through append
		sb.WriteByte('[')
		for _, e := range x.V {
			if !writeContentKey(sb, e, depth+1) {
				return false
			}
			sb.WriteByte(',')
		}
		sb.WriteByte(']')
	case Array:
		if len(x) > 64 {
			return false
		}
		sb.WriteString("a[")
		for _, e := range x {
			if !writeContentKey(sb, e, depth+1) {
				return false
			}
			sb.WriteByte(',')
		}
		sb.WriteByte(']')
	case Struct:
		sb.WriteString("{")
		for _, e := range x {
			if !writeContentKey(sb, e, depth+1) {
				return false
			}
			sb.WriteByte(',')
		}
		sb.WriteByte('}')
	case float64:
		sb.WriteString("f")
		sb.WriteString(strconv.FormatUint(math.Float64bits(x), 16))
	case Iface:
		if x.T == nil {
			sb.WriteString("i-nil")
			return true
		}
		sb.WriteString("i<")
		sb.WriteString(typeStr(x.T))
		sb.WriteByte('>')
		return writeContentKey(sb, x.V, depth+1)
	default:
		return false
	}
	return true
}

type infeasibleMark struct{}

// undoTo rolls the journal back to length n.
func (m *Machine) undoTo(n int) {
	for i := len(m.journal) - 1; i >= n; i-- {
		r := &m.journal[i]
		if r.fn != nil {
			r.fn()
		} else {
			*r.p = r.old
		}
	}
	m.journal = m.journal[:n]
}

// ---------- static purity ----------

// pure reports whether fn stores only into memory it allocated itself, updates
// only maps it made itself, and calls only builtins and pure static callees.
func (w *World) pure(fn *ssa.Function) bool {
	w.pureMu.Lock()
	defer w.pureMu.Unlock()
	return w.pureRec(fn, map[*ssa.Function]bool{})
}

func (w *World) pureRec(fn *ssa.Function, visiting map[*ssa.Function]bool) bool {
	if v, ok := w.pureCache[fn]; ok {
		return v
	}
	if visiting[fn] {
		return true // recursion: judged by the rest of the body
	}
	if fn.Blocks == nil {
		return false
	}
	visiting[fn] = true
	ok := true
	for _, b := range fn.Blocks {
		for _, in := range b.Instrs {
			switch in := in.(type) {
			case *ssa.Store:
				if !localRoot(in.Addr, 0) {
					ok = false
				}
			case *ssa.MapUpdate:
				if !localRoot(in.Map, 0) {
					ok = false
				}
			case *ssa.Go, *ssa.Defer, *ssa.Send, *ssa.Select, *ssa.MakeChan, *ssa.RunDefers:
				if _, isRD := in.(*ssa.RunDefers); !isRD {
					ok = false
				}
			case *ssa.Call:
				if !w.pureCall(&in.Call, visiting) {
					ok = false
				}
			}
			if !ok {
				break
			}
		}
		if !ok {
			break
		}
	}
	delete(visiting, fn)
	w.pureCache[fn] = ok
	return ok
}

var pureIntrinsics = map[string]bool{
	"bytes.Equal": true, "math/bits.Mul64": true, "math/bits.Add64": true, "math/bits.Sub64": true,
	"internal/bytealg.IndexByte": true, "internal/bytealg.IndexByteString": true, "internal/bytealg.Equal": true,
	"internal/bytealg.Compare": true, "internal/bytealg.CompareString": true, "internal/bytealg.Count": true, "internal/bytealg.CountString": true,
	"internal/bytealg.Index": true, "internal/bytealg.IndexString": true,
}

func (w *World) pureCall(c *ssa.CallCommon, visiting map[*ssa.Function]bool) bool {
	if c.IsInvoke() {
		return false
	}
	switch v := c.Value.(type) {
	case *ssa.Builtin:
		switch v.Name() {
		case "len", "cap", "min", "max", "ssa:wrapnilchk", "real", "imag":
			return true
		case "append":
			// may write into spare capacity of the first argument
			return len(c.Args) == 0 || localRoot(c.Args[0], 0)
		case "copy", "clear", "delete":
			return localRoot(c.Args[0], 0)
		case "panic", "print", "println":
			return true
		}
		return false
	case *ssa.Function:
		if pureIntrinsics[v.String()] {
			return true
		}
		if intrinsics[v.String()] != nil {
			return false
		}
		return w.pureRec(v, visiting)
	}
	return false
}

// localRoot reports whether an address/slice/map value is derived from an
// allocation made in the same function.
func localRoot(v ssa.Value, depth int) bool {
	if depth > 20 {
		return false
	}
	switch x := v.(type) {
	case *ssa.Alloc, *ssa.MakeSlice, *ssa.MakeMap:
		return true
	case *ssa.IndexAddr:
		return localRoot(x.X, depth+1)
	case *ssa.FieldAddr:
		return localRoot(x.X, depth+1)
	case *ssa.Slice:
		return localRoot(x.X, depth+1)
	case *ssa.Phi:
		for _, e := range x.Edges {
			if e == v {
				continue
			}
			if !localRootPhi(e, x, depth+1) {
				return false
			}
		}
		return true
	case *ssa.Call:
		if b, ok := x.Call.Value.(*ssa.Builtin); ok && b.Name() == "append" {
			return localRoot(x.Call.Args[0], depth+1)
		}
	case *ssa.Const:
		return x.Value == nil // nil slice/map: append to nil allocates
	case *ssa.UnOp:
		// load of a local variable holding a slice: accept when the variable is a
		// local Alloc whose stored values are local (approximated: not accepted)
		return false
	}
	return false
}

func localRootPhi(e ssa.Value, phi *ssa.Phi, depth int) bool {
	// break cycles through the phi itself (loop-carried append)
	if c, ok := e.(*ssa.Call); ok {
		if b, ok := c.Call.Value.(*ssa.Builtin); ok && b.Name() == "append" && c.Call.Args[0] == ssa.Value(phi) {
			return true
		}
	}
	return localRoot(e, depth)
}
