// Package sx is a symbolic executor for go/ssa. Scalars (bool, integers,
// uintptr) are always *sym.Term — concrete when the term is a constant.
package sx

import (
	"fmt"
	"go/types"
	"strings"

	"golang.org/x/tools/go/ssa"

	"verif/engine/sym"
)

type Value = any

// T is a scalar value.
type T = *sym.Term

// Str is a Go string: either concrete (S) or a fixed-length sequence of byte
// terms (B != nil).
type Str struct {
	S string
	B []T
}

func (s Str) Len() int {
	if s.B != nil {
		return len(s.B)
	}
	return len(s.S)
}

func (s Str) Concrete() (string, bool) {
	if s.B == nil {
		return s.S, true
	}
	bs := make([]byte, len(s.B))
	for i, t := range s.B {
		if !t.IsConst() {
			return "", false
		}
		bs[i] = byte(t.Val)
	}
	return string(bs), true
}

// Struct is a struct value; Array an array value. Both are copied on load
// and stored field-by-field (see mem.go).
type Struct []Value
type Array []Value

// Slice is a slice value. A nil Go slice is the nil slice.
type Slice struct {
	V []Value // V[:len] are the elements, cap(V) is the capacity
}

// Ptr is a pointer to a memory cell.
type Ptr = *Value

// SymPtr is the address of element Idx (symbolic, proven in range) of Elems,
// followed by a path of struct-field / array-index selections.
type SymPtr struct {
	Elems []Value
	Idx   T
	Path  []int
}

type Iface struct {
	T types.Type // nil for the nil interface
	V Value
}

type Closure struct {
	Fn  *ssa.Function
	Env []Value
}

type Tuple []Value

// Opaque is a value produced by a stub that programs may store and pass
// around but not inspect.
type Opaque struct {
	Tag  string
	Data any
}

// Poison is the result of an unsupported operation during package
// initialisation; touching it on a path aborts the path as unsupported.
type Poison struct{ Why string }

// FuncNil is the nil func value.
var nilFunc = (*ssa.Function)(nil)

func typeStr(t types.Type) string {
	if t == nil {
		return "<nil>"
	}
	return types.TypeString(t, nil)
}

func describe(v Value) string {
	switch v := v.(type) {
	case nil:
		return "nil"
	case T:
		return v.String()
	case Str:
		if s, ok := v.Concrete(); ok {
			return fmt.Sprintf("%q", s)
		}
		var sb strings.Builder
		sb.WriteString("str[")
		for i, b := range v.B {
			if i > 0 {
				sb.WriteByte(' ')
			}
			sb.WriteString(b.String())
		}
		sb.WriteByte(']')
		return sb.String()
	case Struct:
		var sb strings.Builder
		sb.WriteByte('{')
		for i, f := range v {
			if i > 0 {
				sb.WriteString(", ")
			}
			if i > 8 {
				sb.WriteString("…")
				break
			}
			sb.WriteString(describe(f))
		}
		sb.WriteByte('}')
		return sb.String()
	case Array:
		return fmt.Sprintf("array(%d)", len(v))
	case Slice:
		if v.V == nil {
			return "slice(nil)"
		}
		var sb strings.Builder
		fmt.Fprintf(&sb, "slice(%d/%d)[", len(v.V), cap(v.V))
		for i, e := range v.V {
			if i > 8 {
				sb.WriteString("…")
				break
			}
			if i > 0 {
				sb.WriteByte(' ')
			}
			sb.WriteString(describe(e))
		}
		sb.WriteByte(']')
		return sb.String()
	case Ptr:
		if v == nil {
			return "ptr(nil)"
		}
		return fmt.Sprintf("ptr(%p)", v)
	case Iface:
		if v.T == nil {
			return "iface(nil)"
		}
		return fmt.Sprintf("iface(%s: %s)", typeStr(v.T), describe(v.V))
	case *Map:
		if v == nil {
			return "map(nil)"
		}
		return fmt.Sprintf("map(%d)", v.Len())
	case *Closure:
		return "closure(" + v.Fn.String() + ")"
	case *ssa.Function:
		if v == nil {
			return "func(nil)"
		}
		return "func(" + v.String() + ")"
	case Tuple:
		var sb strings.Builder
		sb.WriteByte('(')
		for i, f := range v {
			if i > 0 {
				sb.WriteString(", ")
			}
			sb.WriteString(describe(f))
		}
		sb.WriteByte(')')
		return sb.String()
	case *Opaque:
		return "opaque(" + v.Tag + ")"
	case Poison:
		return "poison(" + v.Why + ")"
	}
	return fmt.Sprintf("%T(%v)", v, v)
}
