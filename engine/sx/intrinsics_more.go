package sx

import (
	"fmt"
	"go/ast"
	"go/token"
	"go/types"
	"os"
	"path/filepath"
	"strconv"
	"strings"

	"golang.org/x/tools/go/packages"
	"golang.org/x/tools/go/ssa"
)

// ---- sort.Slice / sort.SliceStable / sort.SliceIsSorted -------------------
//
// The real functions swap elements through reflect. Model: a stable insertion
// sort driven by the caller's less closure (comparisons on symbolic values
// fork like any other branch). sort.Slice makes no stability promise, so for
// elements that less treats as equal the native order may differ.

func init() {
	sliceArg := func(m *Machine, v Value, what string) Slice {
		iv, ok := v.(Iface)
		if !ok {
			m.unsupported("%s: argument is %s", what, describe(v))
		}
		s, ok := iv.V.(Slice)
		if !ok {
			panic(&GoPanic{V: Iface{T: m.W.runtimeErrorType(), V: Str{S: "reflect: call of Swapper on " + typeStr(iv.T)}}, Site: what + "-of-non-slice", RT: true})
		}
		return s
	}
	sortImpl := func(what string) Intrinsic {
		return func(m *Machine, fr *frame, fn *ssa.Function, args []Value) Value {
			s := sliceArg(m, args[0], what)
			less := args[1]
			n := len(s.V)
			// insertion sort on a shadow of the positions; less(i, j) refers to CURRENT
			// slice contents, so elements are really moved step by step
			for i := 1; i < n; i++ {
				for j := i; j > 0; j-- {
					r := m.call(fr, token.NoPos, less, []Value{m.i64(j), m.i64(j - 1)})
					t, ok := r.(T)
					if !ok {
						m.unsupported("%s: less returned %s", what, describe(r))
					}
					if !m.Decide(t) {
						break
					}
					a, b := copyVal(s.V[j]), copyVal(s.V[j-1])
					m.storeAt(&s.V[j], b)
					m.storeAt(&s.V[j-1], a)
				}
			}
			return nil
		}
	}
	// unique.Make during package initialisation only (net/netip's sentinel
	// handles): a fresh canonical object per call. Interning of run-time values
	// is not modelled.
	register("unique.Make", func(m *Machine, fr *frame, fn *ssa.Function, args []Value) Value {
		// canonical object per (type, concrete value); values with symbolic parts are not interned
		var key func(v Value) (string, bool)
		key = func(v Value) (string, bool) {
			switch x := v.(type) {
			case T:
				if !x.IsConst() {
					return "", false
				}
				return fmt.Sprintf("%d:%d", x.W, x.Val), true
			case Str:
				c, ok := m.concreteStr(x)
				return "s" + strconv.Quote(c), ok
			case Struct:
				out := "{"
				for _, f := range x {
					k, ok := key(f)
					if !ok {
						return "", false
					}
					out += k + ","
				}
				return out + "}", true
			}
			return "", false
		}
		k, ok := key(args[0])
		if !ok {
			m.unsupported("unique.Make of a value with symbolic or unsupported parts")
		}
		k = fn.String() + "|" + k
		if p, ok := m.uniqueTab[k]; ok {
			return Struct{p}
		}
		p := new(Value)
		*p = args[0]
		if m.uniqueTab == nil {
			m.uniqueTab = map[string]Ptr{}
		}
		m.uniqueTab[k] = p
		if m.inPath {
			m.onUndo(func() { delete(m.uniqueTab, k) })
		}
		return Struct{p}
	})
	register("sort.Slice", sortImpl("sort.Slice"))
	register("sort.SliceStable", sortImpl("sort.SliceStable"))
	register("sort.SliceIsSorted", func(m *Machine, fr *frame, fn *ssa.Function, args []Value) Value {
		s := sliceArg(m, args[0], "sort.SliceIsSorted")
		for i := len(s.V) - 1; i > 0; i-- {
			r := m.call(fr, token.NoPos, args[1], []Value{m.i64(i), m.i64(i - 1)}).(T)
			if m.Decide(r) {
				return m.F.False
			}
		}
		return m.F.True
	})

	// ---- fmt.Fprintf / Fprint / Fprintln to an interpretable io.Writer ----
	fprint := func(format func(m *Machine, args []Value) Value) Intrinsic {
		return func(m *Machine, fr *frame, fn *ssa.Function, args []Value) Value {
			w, ok := args[0].(Iface)
			zero := Tuple{m.F.Const(64, 0), Iface{}}
			if !ok || w.T == nil {
				return zero
			}
			wf := m.W.Prog.LookupMethod(w.T, nil, "Write")
			if wf == nil || (m.W.intrinsic(wf) == nil && (wf.Blocks == nil || !m.W.allowed(wf))) {
				return zero // os.File, loggers, …: output is not observable by the program
			}
			// Formatting a symbolic integer INTO A HASH DIGEST: the digest is tainted
			// instead (its Sum becomes an unconstrained value — an over-approximation;
			// a counterexample that depends on it does not replay natively and is
			// reported inconclusive). Exact digits are only worth their forks where the
			// text itself is observed.
			if dp, ok := w.V.(Ptr); ok && m.isHashDigest(dp) {
				save := m.Conf.FmtInts
				m.Conf.FmtInts = false
				txt := format(m, args[1:])
				m.Conf.FmtInts = save
				if s, isStr := txt.(Str); isStr {
					m.hashAppend(dp, m.strBytes(s))
					return Tuple{m.F.Const(64, uint64(s.Len())), Iface{}}
				}
				m.hashTaint(dp)
				return zero
			}
			txt := format(m, args[1:])
			s, isStr := txt.(Str)
			if !isStr {
				if p, isP := txt.(Poison); isP {
					m.unsupported("fmt.Fprint* to a program-visible writer: %s", p.Why)
				}
				return zero
			}
			bs := m.strBytes(s)
			buf := make([]Value, len(bs))
			for i, b := range bs {
				buf[i] = b
			}
			return m.call(fr, token.NoPos, wf, []Value{w.V, Slice{V: buf}})
		}
	}
	register("fmt.Fprintf", fprint(func(m *Machine, a []Value) Value { return m.sprintf(a[0], a[1]) }))
	register("fmt.Fprint", fprint(func(m *Machine, a []Value) Value {
		vs := a[0].(Slice).V
		f := strings.Repeat("%v", len(vs))
		return m.sprintf(Str{S: f}, a[0])
	}))
	register("fmt.Fprintln", fprint(func(m *Machine, a []Value) Value {
		vs := a[0].(Slice).V
		f := strings.TrimSuffix(strings.Repeat("%v ", len(vs)), " ") + "\n"
		return m.sprintf(Str{S: f}, a[0])
	}))

	// ---- time.Now: an opaque instant (no calendar arithmetic is modelled) ----
	register("time.Now", func(m *Machine, fr *frame, fn *ssa.Function, args []Value) Value {
		return &Opaque{Tag: "time.Time"}
	})
	register("time.Sleep", func(m *Machine, fr *frame, fn *ssa.Function, args []Value) Value {
		m.yield(fr, "time.Sleep")
		return nil
	})
	register("(time.Time).Sub", func(m *Machine, fr *frame, fn *ssa.Function, args []Value) Value {
		_, o1 := args[0].(*Opaque)
		_, o2 := args[1].(*Opaque)
		if o1 || o2 {
			return m.F.Const(64, 0) // contract: opaque instants (time.Now), elapsed time is 0 (as time.Since)
		}
		return runRealBody{}
	})
	register("time.Since", func(m *Machine, fr *frame, fn *ssa.Function, args []Value) Value {
		return m.F.Const(64, 0)
	})

	// ---- sync/atomic.Value: field 0 holds the stored interface value ----
	avCell := func(m *Machine, fr *frame, v Value) Ptr {
		p, ok := v.(Ptr)
		if !ok || p == nil {
			m.rtPanic(fr, "nil-dereference")
		}
		st, ok := (*p).(Struct)
		if !ok || len(st) == 0 {
			m.unsupported("atomic.Value layout")
		}
		return &st[0]
	}
	register("(*sync/atomic.Value).Load", func(m *Machine, fr *frame, fn *ssa.Function, args []Value) Value {
		m.yield(fr, "atomic.Value.Load")
		c := avCell(m, fr, args[0])
		if iv, ok := (*c).(Iface); ok {
			return iv
		}
		return Iface{}
	})
	register("(*sync/atomic.Value).Store", func(m *Machine, fr *frame, fn *ssa.Function, args []Value) Value {
		m.yield(fr, "atomic.Value.Store")
		iv, _ := args[1].(Iface)
		if iv.T == nil {
			panic(&GoPanic{V: Iface{T: m.W.runtimeErrorType(), V: Str{S: "sync/atomic: store of nil value into Value"}}, Site: "atomic-value-store-nil", RT: true})
		}
		m.set(avCell(m, fr, args[0]), iv)
		return nil
	})
	register("(*sync/atomic.Value).Swap", func(m *Machine, fr *frame, fn *ssa.Function, args []Value) Value {
		m.yield(fr, "atomic.Value.Swap")
		c := avCell(m, fr, args[0])
		old, _ := (*c).(Iface)
		m.set(c, args[1])
		return old
	})
}

// ---- //go:embed ----------------------------------------------------------
//
// go/ssa knows nothing about embed directives: package-level string / []byte
// variables carrying one are filled from the file on disk before the
// package's init runs (embed.FS is not supported).

func (w *World) embedsOf(pkg *ssa.Package) map[string]string {
	w.infoMu.Lock()
	defer w.infoMu.Unlock()
	if w.embeds == nil {
		w.embeds = map[*ssa.Package]map[string]string{}
		byPath := map[string]*packages.Package{}
		packages.Visit(w.Pkgs, nil, func(p *packages.Package) { byPath[p.PkgPath] = p })
		w.pkgByPath = byPath
	}
	if e, ok := w.embeds[pkg]; ok {
		return e
	}
	res := map[string]string{}
	if p := w.pkgByPath[pkg.Pkg.Path()]; p != nil {
		for i, f := range p.Syntax {
			dir := filepath.Dir(p.CompiledGoFiles[i])
			for _, d := range f.Decls {
				gd, ok := d.(*ast.GenDecl)
				if !ok || gd.Tok != token.VAR {
					continue
				}
				for _, sp := range gd.Specs {
					vs := sp.(*ast.ValueSpec)
					doc := vs.Doc
					if doc == nil && len(gd.Specs) == 1 {
						doc = gd.Doc
					}
					if doc == nil || len(vs.Names) != 1 {
						continue
					}
					for _, c := range doc.List {
						if strings.HasPrefix(c.Text, "//go:embed ") {
							pat := strings.TrimSpace(strings.TrimPrefix(c.Text, "//go:embed "))
							res[vs.Names[0].Name] = filepath.Join(dir, strings.Trim(pat, "\""))
						}
					}
				}
			}
		}
	}
	w.embeds[pkg] = res
	return res
}

func (m *Machine) loadEmbeds(pkg *ssa.Package) {
	for name, file := range m.W.embedsOf(pkg) {
		g, ok := pkg.Members[name].(*ssa.Global)
		if !ok {
			continue
		}
		p := m.globalAddr(g)
		switch u := deref(g.Type()).Underlying().(type) {
		case *types.Basic:
			if u.Info()&types.IsString != 0 {
				*p = LazyEmbed{File: file, Str: true}
			}
		case *types.Slice:
			*p = LazyEmbed{File: file}
		default:
			m.InitNotes = append(m.InitNotes, "go:embed into "+typeStr(g.Type())+" not supported ("+name+")")
		}
	}
}

// LazyEmbed stands for the content of an embedded file until the variable is
// first read (the repository embeds 22 MB of collation tables; almost none of
// it is touched by any one harness).
type LazyEmbed struct {
	File string
	Str  bool
}

func (m *Machine) forceEmbed(p Ptr, le LazyEmbed) {
	raw, err := os.ReadFile(le.File)
	if err != nil {
		m.unsupported("go:embed %s: %v", le.File, err)
	}
	if le.Str {
		*p = Str{S: string(raw)}
		return
	}
	vals := make([]Value, len(raw))
	for i, b := range raw {
		vals[i] = m.F.Const(8, uint64(b))
	}
	*p = Slice{V: vals}
}
