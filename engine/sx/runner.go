package sx

import (
	"fmt"
	"go/token"
	"os"
	"sort"
	"sync"
	"time"

	"golang.org/x/tools/go/ssa"

	"verif/engine/solver"
	"verif/engine/sym"
)

// NewMachine creates a worker with its own term factory, solver process and
// heap, and runs package initialisation for pkg concretely.
func (w *World) NewMachine(conf Config, pkg *ssa.Package) (*Machine, error) {
	f := sym.NewFactory()
	kind := conf.SolverKind
	if kind == "" {
		kind = "z3"
	}
	ms := conf.SolverMS
	if ms == 0 {
		ms = 20000
	}
	s, err := solver.New(kind, f, ms)
	if err != nil {
		return nil, err
	}
	m := &Machine{W: w, F: f, S: s, Conf: conf, globals: map[*ssa.Global]*Value{}, initDone: map[*ssa.Package]bool{}}
	m.Stats.Unsupported = map[string]int{}
	m.Stats.Internal = map[string]int{}
	m.ndVars = map[string]T{}
	m.choices = map[string]int64{}
	m.reached = map[string]bool{}
	m.asserted = map[string]bool{}
	if pkg != nil {
		m.RunInit(pkg)
	}
	return m, nil
}

func (m *Machine) Close() { m.S.Close() }

// RunInit runs pkg's initialiser (and, through it, those of its imports that
// are on the init allow-list) concretely.
func (m *Machine) RunInit(pkg *ssa.Package) {
	if m.initDone[pkg] {
		return
	}
	m.initDone[pkg] = true
	initFn := pkg.Func("init")
	if initFn == nil {
		return
	}
	m.initing = true
	saveConf := m.Conf
	m.Conf.MaxSteps = 1 << 40
	defer func() {
		m.initing = false
		m.Conf = saveConf
		m.steps = 0
		m.depth = 0
		if r := recover(); r != nil {
			m.InitNotes = append(m.InitNotes, fmt.Sprintf("init of %s aborted: %s", pkg.Pkg.Path(), classify(r)))
		}
	}()
	m.callFunction(nil, token.NoPos, initFn, nil)
}

// protectedCall is used during package initialisation: an unsupported
// operation poisons the call's result instead of aborting.
func (m *Machine) protectedCall(caller *frame, pos token.Pos, fn Value, args []Value) (res Value) {
	depth := m.depth
	defer func() {
		if r := recover(); r != nil {
			why := classify(r)
			m.depth = depth
			name := describe(fn)
			if len(m.InitNotes) < 200 {
				m.InitNotes = append(m.InitNotes, fmt.Sprintf("init: call %s poisoned: %s", name, why))
			}
			res = m.poisonResult(fn, why)
		}
	}()
	return m.call2(caller, pos, fn, args)
}

// protectedInstr executes a Call instruction during init; failures anywhere
// in it (including method lookup on a poisoned receiver) poison the result.
func (m *Machine) protectedInstr(fr *frame, in *ssa.Call) (res Value) {
	depth := m.depth
	defer func() {
		if r := recover(); r != nil {
			why := classify(r)
			m.depth = depth
			if len(m.InitNotes) < 300 {
				m.InitNotes = append(m.InitNotes, fmt.Sprintf("init: %s in %s poisoned: %s", in.String(), fr.fn.String(), why))
			}
			p := Poison{why}
			switch n := in.Call.Signature().Results().Len(); n {
			case 0:
				res = nil
			case 1:
				res = p
			default:
				t := make(Tuple, n)
				for i := range t {
					t[i] = p
				}
				res = t
			}
		}
	}()
	fn, args := m.prepareCall(fr, &in.Call)
	return m.call2(fr, in.Pos(), fn, args)
}

// classify renders a recovered panic value (path end, interpreted Go panic,
// or an interpreter-internal error) as text.
func classify(r any) string {
	switch r := r.(type) {
	case pathEnd:
		return r.kind + ": " + r.detail
	case *GoPanic:
		return "panic " + r.Site + ": " + describe(r.V)
	case error:
		return "internal: " + r.Error()
	default:
		return fmt.Sprintf("internal: %v", r)
	}
}

func (m *Machine) poisonResult(fn Value, why string) Value {
	n := 1
	switch f := fn.(type) {
	case *ssa.Function:
		if f != nil {
			n = f.Signature.Results().Len()
		}
	case *Closure:
		n = f.Fn.Signature.Results().Len()
	}
	p := Poison{why}
	switch n {
	case 0:
		return nil
	case 1:
		return p
	}
	t := make(Tuple, n)
	for i := range t {
		t[i] = p
	}
	return t
}

// HarnessResult aggregates the exploration of one harness.
type HarnessResult struct {
	Name        string
	Paths       int
	Done        int
	Infeasible  int
	Panics      int
	Unsupported map[string]int
	Unwind      int
	Budget      int
	Internal    map[string]int
	CEs         map[string]*CEGroup
	Reached     map[string]int
	Asserted    map[string]int
	Notes       []string
	InitNotes   []string
	Observes    [][]string
	Steps       int64
	Wall        time.Duration
	Complete    bool // the work-list was drained within budget
	Solver      solver.Stats
	AssertUnsat int
	AssertSat   int
	AssertUnk   int
	BranchQ     int
	SamplePaths []string
}

type CEGroup struct {
	First CE
	Count int
	All   []CE
}

func (r *HarnessResult) Inconclusive() int {
	n := r.Unwind + r.Budget + r.AssertUnk
	for _, c := range r.Unsupported {
		n += c
	}
	for _, c := range r.Internal {
		n += c
	}
	if !r.Complete {
		n++
	}
	return n
}

// Pool is a set of machines initialised for one package.
type Pool struct {
	W  *World
	Ms []*Machine
}

func (w *World) NewPool(conf Config, pkg *ssa.Package, n int) (*Pool, error) {
	p := &Pool{W: w}
	var mu sync.Mutex
	var wg sync.WaitGroup
	var firstErr error
	for i := 0; i < n; i++ {
		wg.Add(1)
		go func() {
			defer wg.Done()
			m, err := w.NewMachine(conf, pkg)
			mu.Lock()
			defer mu.Unlock()
			if err != nil {
				firstErr = err
				return
			}
			p.Ms = append(p.Ms, m)
		}()
	}
	wg.Wait()
	if firstErr != nil {
		return nil, firstErr
	}
	return p, nil
}

func (p *Pool) Close() {
	for _, m := range p.Ms {
		m.Close()
	}
}

// Job is one harness with its bounds.
type Job struct {
	Fn   *ssa.Function
	Conf Config
}

// Explore drains the path tree of one harness.
func (p *Pool) Explore(fn *ssa.Function, conf Config) *HarnessResult {
	return p.ExploreAll([]Job{{fn, conf}})[0]
}

// ExploreAll drains the path trees of several harnesses concurrently: every
// machine takes the next pending path of any harness.
func (p *Pool) ExploreAll(jobs []Job) []*HarnessResult {
	w := p.W
	results := make([]*HarnessResult, len(jobs))
	started := make([]time.Time, len(jobs))
	ended := make([]time.Time, len(jobs))
	inflight := make([]int, len(jobs))
	over := make([]bool, len(jobs))
	for i, j := range jobs {
		results[i] = &HarnessResult{Name: j.Fn.Name(), Unsupported: map[string]int{}, Internal: map[string]int{}, CEs: map[string]*CEGroup{},
			Reached: map[string]int{}, Asserted: map[string]int{}}
	}
	w.resetQueue()
	for i := range jobs {
		w.push(i, nil)
	}
	var mu sync.Mutex
	var wg sync.WaitGroup
	stopProgress := make(chan struct{})
	if os.Getenv("VERIF_PROGRESS") != "" {
		go func() {
			tk := time.NewTicker(15 * time.Second)
			defer tk.Stop()
			for {
				select {
				case <-stopProgress:
					return
				case <-tk.C:
					mu.Lock()
					for i, r := range results {
						if inflight[i] > 0 || (r.Paths > 0 && !over[i]) {
							fmt.Fprintf(os.Stderr, "  progress %s: paths=%d done=%d infeasible=%d inflight=%d ces=%d\n", r.Name, r.Paths, r.Done, r.Infeasible, inflight[i], len(r.CEs))
						}
					}
					for _, m := range p.Ms {
						if m.inPath {
							fmt.Fprintf(os.Stderr, "    machine: steps=%d pc=%d trace=%d queries=%d in %s\n", m.steps, len(m.pc), len(m.trace), m.S.Stats.Queries, m.curFn)
						}
					}
					mu.Unlock()
				}
			}
		}()
	}
	defer close(stopProgress)
	for _, m := range p.Ms {
		m.S.Restart()
		m.lastHSet = false
		m.S.Stats = solver.Stats{}
		m.Stats = MStats{Unsupported: map[string]int{}, Internal: map[string]int{}}
		wg.Add(1)
		go func(m *Machine) {
			defer wg.Done()
			for {
				prefer := -1
				if m.lastHSet {
					prefer = m.lastH
				}
				t, ok := w.pop(prefer)
				if !ok {
					return
				}
				job := jobs[t.h]
				res := results[t.h]
				mu.Lock()
				if started[t.h].IsZero() {
					started[t.h] = time.Now()
				}
				inflight[t.h]++
				mu.Unlock()
				if m.lastH != t.h {
					// fresh solver process per harness: definitions and learnt state of an
					// earlier harness must not slow down (or otherwise influence) this one
					if m.lastHSet {
						m.S.Restart()
					}
					m.lastH, m.lastHSet = t.h, true
				}
				m.Conf = job.Conf
				m.curH = t.h
				m.deadline = started[t.h].Add(job.Conf.MaxTime + 20*time.Second)
				before := m.S.Stats
				bst := m.Stats
				pr := m.RunPath(job.Fn, t.prefix)
				after := m.S.Stats
				mu.Lock()
				inflight[t.h]--
				ended[t.h] = time.Now()
				res.Solver.Queries += after.Queries - before.Queries
				res.Solver.Sat += after.Sat - before.Sat
				res.Solver.Unsat += after.Unsat - before.Unsat
				res.Solver.Unknown += after.Unknown - before.Unknown
				res.Solver.Errors += after.Errors - before.Errors
				res.Solver.Restarts += after.Restarts - before.Restarts
				res.Solver.Time += after.Time - before.Time
				if after.MaxQuery > res.Solver.MaxQuery {
					res.Solver.MaxQuery = after.MaxQuery
				}
				res.AssertUnsat += m.Stats.AssertUnsat - bst.AssertUnsat
				res.AssertSat += m.Stats.AssertSat - bst.AssertSat
				res.AssertUnk += m.Stats.AssertUnk - bst.AssertUnk
				res.BranchQ += m.Stats.BranchQ - bst.BranchQ
				res.Paths++
				switch pr.End.kind {
				case "done":
					res.Done++
				case "infeasible":
					res.Infeasible++
				case "panic", "deadlock":
					res.Panics++
				case "unsupported":
					res.Unsupported[pr.End.detail]++
				case "unwind":
					res.Unwind++
					if len(res.Notes) < 20 {
						res.Notes = append(res.Notes, pr.End.detail)
					}
				case "budget":
					res.Budget++
					if len(res.Notes) < 20 {
						res.Notes = append(res.Notes, pr.End.detail)
					}
				default:
					res.Internal[pr.End.detail]++
				}
				for _, ce := range pr.CEs {
					g := res.CEs[ce.ID]
					if g == nil {
						g = &CEGroup{First: ce}
						res.CEs[ce.ID] = g
					}
					g.Count++
					if len(g.All) < 8 {
						g.All = append(g.All, ce)
					}
				}
				for _, id := range pr.Reached {
					res.Reached[id]++
				}
				for _, id := range pr.Asserted {
					res.Asserted[id]++
				}
				for _, n := range pr.Notes {
					if len(res.Notes) < 40 {
						res.Notes = append(res.Notes, n)
					}
				}
				if len(pr.Observes) > 0 && len(res.Observes) < 4 {
					res.Observes = append(res.Observes, pr.Observes)
				}
				if len(res.SamplePaths) < 5 && pr.End.kind == "done" {
					res.SamplePaths = append(res.SamplePaths, fmt.Sprintf("decisions=%v choices=%v steps=%d", prefixOf(m.trace), pr.Choices, pr.Steps))
				}
				res.Steps += int64(pr.Steps)
				if !over[t.h] && ((job.Conf.MaxPaths > 0 && res.Paths >= job.Conf.MaxPaths) || time.Since(started[t.h]) > job.Conf.MaxTime) {
					over[t.h] = true
					w.kill(t.h)
				}
				mu.Unlock()
				w.done()
			}
		}(m)
	}
	wg.Wait()
	for i, res := range results {
		res.Complete = !over[i]
		if !started[i].IsZero() {
			res.Wall = ended[i].Sub(started[i])
		}
		if len(p.Ms) > 0 {
			res.InitNotes = p.Ms[0].InitNotes
		}
	}
	return results
}

func prefixOf(t []int32) string {
	s := ""
	for i, d := range t {
		if i >= 48 {
			s += "…"
			break
		}
		s += fmt.Sprint(d)
	}
	return s
}

func SortedKeys[V any](m map[string]V) []string {
	ks := make([]string, 0, len(m))
	for k := range m {
		ks = append(ks, k)
	}
	sort.Strings(ks)
	return ks
}
