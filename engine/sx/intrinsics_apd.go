package sx

import (
	"golang.org/x/tools/go/ssa"
)

// (*apd.BigInt).inner points a temporary big.Int at the BigInt's inline word
// array by reinterpreting &z._inline[0] as *[inlineWords]big.Word through
// unsafe.Pointer — the one construct of apd the executor cannot follow (an
// element pointer does not know its array). The intrinsic performs the same
// steps on the executor's values; the slice it installs SHARES the cells of
// z._inline, as in the original, so arithmetic through the temporary writes
// into the inline storage and updateInner's pointer comparison
// (&z._inline[0] != &bits[0]) behaves as compiled.
//
//	tmp.SetBits(z._inline[:])     // abs = words without leading zeros, neg = false
//	if z._inner != nil { if z._inner != negSentinel { return z._inner }; tmp.neg = true }
//	return tmp
func init() {
	register("(*github.com/cockroachdb/apd/v3.BigInt).inner", func(m *Machine, fr *frame, fn *ssa.Function, args []Value) Value {
		z, ok1 := args[0].(Ptr)
		tmp, ok2 := args[1].(Ptr)
		if !ok1 || !ok2 || z == nil || tmp == nil {
			m.rtPanic(fr, "nil-dereference")
		}
		zs, ok := (*z).(Struct)
		ts, ok3 := (*tmp).(Struct)
		if !ok || !ok3 || len(zs) != 2 || len(ts) != 2 {
			m.unsupported("apd.BigInt.inner on unexpected representation")
		}
		inline, ok := zs[1].(Array)
		if !ok {
			m.unsupported("apd.BigInt._inline is not an array value")
		}
		// nat.norm: drop leading (high) zero words
		n := len(inline)
		for n > 0 {
			w, isT := inline[n-1].(T)
			if !isT {
				m.unsupported("apd.BigInt._inline holds a non-scalar")
			}
			if !m.Decide(m.F.Eq(w, m.F.Const(w.W, 0))) {
				break
			}
			n--
		}
		m.set(&ts[0], m.F.False)
		m.set(&ts[1], Slice{V: []Value(inline)[:n:len(inline)]})
		inner, _ := zs[0].(Ptr)
		if inner != nil {
			pkg := m.W.SSAPkgs["github.com/cockroachdb/apd/v3"]
			var sentinel Ptr
			if pkg != nil {
				if g, ok := pkg.Members["negSentinel"].(*ssa.Global); ok {
					sentinel, _ = (*m.globalAddr(g)).(Ptr)
				}
			}
			if inner != sentinel {
				return inner
			}
			m.set(&ts[0], m.F.True)
		}
		return tmp
	})
}
