package sx

import (
	"crypto/sha1"
	"crypto/sha256"
	"fmt"
	"go/types"

	"github.com/cespare/xxhash/v2"
	"golang.org/x/tools/go/ssa"
)

// Hash functions as uninterpreted functions.
//
// A digest object accumulates the bytes written to it (side table keyed by the
// digest's address); Sum is UF_n(b0..b{n-1}) for the n accumulated bytes. With
// Conf.HashInjective the executor additionally assumes, for every pair of
// applications on the path, "equal results ⇒ equal pre-images" (and different
// lengths ⇒ different results): collisions of the hash function itself are
// excluded, collisions of the PRE-IMAGE ENCODING are exactly what a harness
// then observes. Both are listed among the check's assumptions.

type ufApp struct {
	args []T
	res  T
	conc bool // real value of a fully concrete pre-image
}

func (m *Machine) hashAccOf(p Ptr) []T { return m.hashAcc[p] }

func (m *Machine) isHashDigest(p Ptr) bool {
	_, ok := m.hashAcc[p]
	return ok
}

// hashTaint marks a digest whose pre-image is not representable: its sums are
// fresh unconstrained values until the next Reset.
func (m *Machine) hashTaint(p Ptr) {
	if m.hashTainted == nil {
		m.hashTainted = map[Ptr]bool{}
	}
	if !m.hashTainted[p] {
		m.hashTainted[p] = true
		m.onUndo(func() { delete(m.hashTainted, p) })
	}
}

func (m *Machine) hashUntaint(p Ptr) {
	if m.hashTainted[p] {
		delete(m.hashTainted, p)
		m.onUndo(func() { m.hashTainted[p] = true })
	}
}

// hashSum is Sum over the digest's accumulated bytes (or a fresh value when tainted).
func (m *Machine) hashSum(family string, resW int, p Ptr) T {
	if m.hashTainted[p] {
		m.taintSeq++
		n := m.taintSeq
		m.onUndo(func() { m.taintSeq-- })
		return m.F.Var(fmt.Sprintf("uf!%s_tainted#%d", family, n), resW)
	}
	return m.ufHash(family, resW, m.hashAccOf(p))
}

func (m *Machine) hashAccSet(p Ptr, bs []T) {
	if m.hashAcc == nil {
		m.hashAcc = map[Ptr][]T{}
	}
	old, had := m.hashAcc[p]
	m.hashAcc[p] = bs
	m.onUndo(func() {
		if had {
			m.hashAcc[p] = old
		} else {
			delete(m.hashAcc, p)
		}
	})
}

func (m *Machine) hashAppend(p Ptr, more []T) {
	cur := m.hashAcc[p]
	nb := make([]T, 0, len(cur)+len(more))
	nb = append(append(nb, cur...), more...)
	m.hashAccSet(p, nb)
}

// ufHash applies the uninterpreted hash `family` (result width resW) to bytes.
//
// The application is Ackermannised: each syntactically new argument tuple gets
// a fresh variable, and functional consistency (equal arguments ⇒ equal
// results) is added pairwise against the earlier applications of the same
// arity on this path. The formula therefore stays pure bit-vector logic, which
// the solvers bit-blast; with real UF symbols the combination EUF+BV did not
// finish on the 40-byte SHA-1 pre-images of C40 (measured: > 120 s on z3
// 4.8.12, z3 5.1.0 and cvc5).
func (m *Machine) ufHash(family string, resW int, bs []T) T {
	// fully concrete pre-image: the real function (a valid interpretation of the
	// uninterpreted symbol; keeps concrete-mode conformance runs and native
	// replays exact)
	conc := true
	raw := make([]byte, len(bs))
	for i, b := range bs {
		if !b.IsConst() {
			conc = false
			break
		}
		raw[i] = byte(b.Val)
	}
	if !conc && len(bs) > 256 {
		m.unsupported("%s over %d bytes", family, len(bs))
	}
	var concRes T
	if conc {
		switch family {
		case "xxh":
			concRes = m.F.Const(64, xxhash.Sum64(raw))
		case "sha1":
			sum := sha1.Sum(raw)
			for i := 0; i < 20; i++ {
				b := m.F.Const(8, uint64(sum[i]))
				if concRes == nil {
					concRes = b
				} else {
					concRes = m.F.Concat(concRes, b)
				}
			}
		case "sha256":
			sum := sha256.Sum256(raw)
			for i := 0; i < 32; i++ {
				b := m.F.Const(8, uint64(sum[i]))
				if concRes == nil {
					concRes = b
				} else {
					concRes = m.F.Concat(concRes, b)
				}
			}
		}
	}
	if m.ufApps == nil {
		m.ufApps = map[string][]ufApp{}
	}
	prev := m.ufApps[family]
	for _, a := range prev {
		if len(a.args) == len(bs) {
			same := true
			for i := range bs {
				if a.args[i] != bs[i] {
					same = false
					break
				}
			}
			if same {
				return a.res
			}
		}
	}
	res := concRes
	if res == nil {
		res = m.F.Var(fmt.Sprintf("uf!%s_%d#%d", family, len(bs), len(prev)), resW)
	}
	for _, a := range prev {
		if concRes != nil && a.conc {
			continue // two real values: nothing to relate
		}
		if len(a.args) != len(bs) {
			if m.Conf.HashInjective {
				m.addPCQuiet(m.F.Not(m.F.Eq(a.res, res)))
			}
			continue
		}
		same := m.F.True
		for i := range bs {
			same = m.F.And(same, m.F.Eq(a.args[i], bs[i]))
		}
		if m.Conf.HashInjective {
			m.addPCQuiet(m.F.Eq(m.F.Eq(a.res, res), same)) // equal results ⇔ equal pre-images
		} else {
			m.addPCQuiet(m.F.Implies(same, m.F.Eq(a.res, res)))
		}
	}
	n := len(prev)
	m.ufApps[family] = append(prev, ufApp{args: bs, res: res, conc: concRes != nil})
	m.onUndo(func() { m.ufApps[family] = m.ufApps[family][:n] })
	return res
}

// addPCQuiet adds an axiom instance to the path condition.
func (m *Machine) addPCQuiet(c T) {
	if c.IsConst() {
		if c.Val == 0 {
			m.abort("infeasible", "hash axiom false")
		}
		return
	}
	m.pc = append(m.pc, c)
	m.S.Assert(c)
	m.model = nil
}

func tupleIntNilErr(m *Machine, n int) Value {
	return Tuple{m.F.Const(64, uint64(n)), Iface{}}
}

func init() {
	xx := "github.com/cespare/xxhash/v2"
	register(xx+".New", func(m *Machine, fr *frame, fn *ssa.Function, args []Value) Value {
		pt := fn.Signature.Results().At(0).Type()
		p := new(Value)
		*p = m.zero(deref(pt))
		m.hashAccSet(p, nil)
		return Ptr(p)
	})
	register("(*"+xx+".Digest).Reset", func(m *Machine, fr *frame, fn *ssa.Function, args []Value) Value {
		m.hashAccSet(args[0].(Ptr), nil)
		m.hashUntaint(args[0].(Ptr))
		return nil
	})
	register("(*"+xx+".Digest).Write", func(m *Machine, fr *frame, fn *ssa.Function, args []Value) Value {
		bs := m.seqBytes(args[1])
		m.hashAppend(args[0].(Ptr), bs)
		return tupleIntNilErr(m, len(bs))
	})
	register("(*"+xx+".Digest).WriteString", func(m *Machine, fr *frame, fn *ssa.Function, args []Value) Value {
		bs := m.seqBytes(args[1])
		m.hashAppend(args[0].(Ptr), bs)
		return tupleIntNilErr(m, len(bs))
	})
	register("(*"+xx+".Digest).Sum64", func(m *Machine, fr *frame, fn *ssa.Function, args []Value) Value {
		return m.hashSum("xxh", 64, args[0].(Ptr))
	})
	register(xx+".Sum64", func(m *Machine, fr *frame, fn *ssa.Function, args []Value) Value {
		return m.ufHash("xxh", 64, m.seqBytes(args[0]))
	})
	register(xx+".Sum64String", func(m *Machine, fr *frame, fn *ssa.Function, args []Value) Value {
		return m.ufHash("xxh", 64, m.seqBytes(args[0]))
	})

	// crypto/sha1 (hash.Hash returned by sha1.New, and sha1.Sum)
	sha1Bytes := func(m *Machine, bs []T) []Value {
		h := m.ufHash("sha1", 160, bs)
		out := make([]Value, 20)
		for i := 0; i < 20; i++ {
			hi := 159 - 8*i
			out[i] = m.F.Extract(h, hi, hi-7)
		}
		return out
	}
	register("crypto/sha1.New", func(m *Machine, fr *frame, fn *ssa.Function, args []Value) Value {
		pkg := m.W.SSAPkgs["crypto/sha1"]
		if pkg == nil || pkg.Type("digest") == nil {
			m.unsupported("crypto/sha1.digest not loaded")
		}
		dt := pkg.Type("digest").Type()
		p := new(Value)
		*p = m.zero(dt)
		m.hashAccSet(p, nil)
		return Iface{T: types.NewPointer(dt), V: Ptr(p)}
	})
	register("(*crypto/sha1.digest).Reset", func(m *Machine, fr *frame, fn *ssa.Function, args []Value) Value {
		m.hashAccSet(args[0].(Ptr), nil)
		return nil
	})
	register("(*crypto/sha1.digest).Write", func(m *Machine, fr *frame, fn *ssa.Function, args []Value) Value {
		bs := m.seqBytes(args[1])
		m.hashAppend(args[0].(Ptr), bs)
		return tupleIntNilErr(m, len(bs))
	})
	register("(*crypto/sha1.digest).Sum", func(m *Machine, fr *frame, fn *ssa.Function, args []Value) Value {
		in := args[1].(Slice)
		out := make([]Value, 0, len(in.V)+20)
		out = append(out, in.V...)
		out = append(out, sha1Bytes(m, m.hashAccOf(args[0].(Ptr)))...)
		return Slice{V: out}
	})
	register("(*crypto/sha1.digest).Size", func(m *Machine, fr *frame, fn *ssa.Function, args []Value) Value {
		return m.F.Const(64, 20)
	})
	register("crypto/sha1.Sum", func(m *Machine, fr *frame, fn *ssa.Function, args []Value) Value {
		return Array(sha1Bytes(m, m.seqBytes(args[0])))
	})

	// crypto/sha256 (New, Sum256): same treatment; the digest object is the one
	// sha256.New really returns (crypto/internal/fips140/sha256.Digest), its
	// state kept in the executor's side table.
	sha256Bytes := func(m *Machine, bs []T) []Value {
		h := m.ufHash("sha256", 256, bs)
		out := make([]Value, 32)
		for i := 0; i < 32; i++ {
			hi := 255 - 8*i
			out[i] = m.F.Extract(h, hi, hi-7)
		}
		return out
	}
	const fips256 = "crypto/internal/fips140/sha256"
	register("crypto/sha256.New", func(m *Machine, fr *frame, fn *ssa.Function, args []Value) Value {
		pkg := m.W.SSAPkgs[fips256]
		if pkg == nil || pkg.Type("Digest") == nil {
			m.unsupported(fips256 + ".Digest not loaded")
		}
		dt := pkg.Type("Digest").Type()
		p := new(Value)
		*p = m.zero(dt)
		m.hashAccSet(p, nil)
		return Iface{T: types.NewPointer(dt), V: Ptr(p)}
	})
	register("(*"+fips256+".Digest).Reset", func(m *Machine, fr *frame, fn *ssa.Function, args []Value) Value {
		m.hashAccSet(args[0].(Ptr), nil)
		return nil
	})
	register("(*"+fips256+".Digest).Write", func(m *Machine, fr *frame, fn *ssa.Function, args []Value) Value {
		bs := m.seqBytes(args[1])
		m.hashAppend(args[0].(Ptr), bs)
		return tupleIntNilErr(m, len(bs))
	})
	register("(*"+fips256+".Digest).Sum", func(m *Machine, fr *frame, fn *ssa.Function, args []Value) Value {
		in := args[1].(Slice)
		out := make([]Value, 0, len(in.V)+32)
		out = append(out, in.V...)
		out = append(out, sha256Bytes(m, m.hashAccOf(args[0].(Ptr)))...)
		return Slice{V: out}
	})
	register("(*"+fips256+".Digest).Size", func(m *Machine, fr *frame, fn *ssa.Function, args []Value) Value {
		return m.F.Const(64, 32)
	})
	register("(*"+fips256+".Digest).BlockSize", func(m *Machine, fr *frame, fn *ssa.Function, args []Value) Value {
		return m.F.Const(64, 64)
	})
	register("crypto/sha256.Sum256", func(m *Machine, fr *frame, fn *ssa.Function, args []Value) Value {
		return Array(sha256Bytes(m, m.seqBytes(args[0])))
	})
}
