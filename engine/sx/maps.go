package sx

import (
	"fmt"
	"go/types"
	"math"
	"strconv"
	"strings"

	"golang.org/x/tools/go/ssa"
)

type mapEnt struct {
	key     Value
	val     Value
	ks      string
	sym     bool
	deleted bool
}

// Map is a Go map. Entries with concrete keys are indexed by a canonical
// string; entries whose key is symbolic are kept in a list and are known (via
// the path condition) to be distinct from every other live entry.
type Map struct {
	KT, VT types.Type
	ents   map[string]*mapEnt
	order  []*mapEnt
	nsym   int
	n      int
}

func (mp *Map) Len() int {
	if mp == nil {
		return 0
	}
	return mp.n
}

func (m *Machine) newMap(t types.Type) *Map {
	mt := t.Underlying().(*types.Map)
	return &Map{KT: mt.Key(), VT: mt.Elem(), ents: map[string]*mapEnt{}}
}

// keyString returns a canonical string for a fully concrete comparable value.
func keyString(v Value) (string, bool) {
	var sb strings.Builder
	if !writeKey(&sb, v) {
		return "", false
	}
	return sb.String(), true
}

func writeKey(sb *strings.Builder, v Value) bool {
	switch v := v.(type) {
	case T:
		if !v.IsConst() {
			return false
		}
		sb.WriteString("i")
		sb.WriteString(strconv.FormatUint(v.Val, 16))
		sb.WriteByte(';')
	case Str:
		s, ok := v.Concrete()
		if !ok {
			return false
		}
		sb.WriteString("s")
		sb.WriteString(strconv.Itoa(len(s)))
		sb.WriteByte(':')
		sb.WriteString(s)
	case Struct:
		sb.WriteByte('{')
		for _, f := range v {
			if !writeKey(sb, f) {
				return false
			}
		}
		sb.WriteByte('}')
	case Array:
		sb.WriteByte('[')
		for _, f := range v {
			if !writeKey(sb, f) {
				return false
			}
		}
		sb.WriteByte(']')
	case Iface:
		if v.T == nil {
			sb.WriteString("I0;")
			return true
		}
		sb.WriteString("I<")
		sb.WriteString(typeStr(v.T))
		sb.WriteByte('>')
		return writeKey(sb, v.V)
	case Ptr:
		fmt.Fprintf(sb, "p%p;", v)
	case float64:
		sb.WriteString("f")
		sb.WriteString(strconv.FormatUint(math.Float64bits(v), 16))
		sb.WriteByte(';')
	case float32:
		sb.WriteString("g")
		sb.WriteString(strconv.FormatUint(uint64(math.Float32bits(v)), 16))
		sb.WriteByte(';')
	case *Opaque:
		fmt.Fprintf(sb, "o%p;", v)
	case *Chan:
		fmt.Fprintf(sb, "c%p;", v)
	case *ssa.Function:
		fmt.Fprintf(sb, "F%p;", v)
	default:
		return false
	}
	return true
}

// find locates the entry equal to key, forking on symbolic equalities.
func (m *Machine) mapFind(fr *frame, mp *Map, key Value) *mapEnt {
	if mp == nil {
		return nil
	}
	if ks, ok := keyString(key); ok {
		if e, ok := mp.ents[ks]; ok && !e.deleted {
			return e
		}
		if mp.nsym == 0 {
			return nil
		}
		for _, e := range mp.order {
			if e.deleted || !e.sym {
				continue
			}
			if m.Decide(m.equals(mp.KT, key, e.key)) {
				return e
			}
		}
		return nil
	}
	for _, e := range mp.order {
		if e.deleted {
			continue
		}
		if m.Decide(m.equals(mp.KT, key, e.key)) {
			return e
		}
	}
	return nil
}

func (m *Machine) mapGet(fr *frame, mp *Map, key Value) (Value, T) {
	if mp == nil {
		return nil, m.F.False
	}
	if _, isP := key.(Poison); isP {
		m.unsupported("map lookup with poison key")
	}
	// symbolic key over many entries: try a fork-free ite chain
	if _, conc := keyString(key); !conc && mp.n > 0 {
		var res Value = m.zero(mp.VT)
		found := m.F.False
		ok := true
		for _, e := range mp.order {
			if e.deleted {
				continue
			}
			c := m.equals(mp.KT, key, e.key)
			var merged Value
			merged, ok = m.ite(c, e.val, res)
			if !ok {
				break
			}
			res = merged
			found = m.F.Or(c, found)
		}
		if ok {
			return res, found
		}
	}
	e := m.mapFind(fr, mp, key)
	if e == nil {
		return nil, m.F.False
	}
	return e.val, m.F.True
}

func (m *Machine) mapSet(fr *frame, mp *Map, key, val Value) {
	if _, isP := key.(Poison); isP {
		m.unsupported("map update with poison key")
	}
	e := m.mapFind(fr, mp, key)
	if e != nil {
		old := e.val
		e.val = val
		m.onUndo(func() { e.val = old })
		return
	}
	ne := &mapEnt{key: key, val: val}
	if ks, ok := keyString(key); ok {
		ne.ks = ks
		prev := mp.ents[ks]
		mp.ents[ks] = ne
		m.onUndo(func() {
			if prev != nil {
				mp.ents[ks] = prev
			} else {
				delete(mp.ents, ks)
			}
		})
	} else {
		ne.sym = true
		mp.nsym++
		m.onUndo(func() { mp.nsym-- })
	}
	mp.order = append(mp.order, ne)
	mp.n++
	m.onUndo(func() { mp.order = mp.order[:len(mp.order)-1]; mp.n-- })
}

func (m *Machine) mapDelete(fr *frame, mp *Map, key Value) {
	e := m.mapFind(fr, mp, key)
	if e == nil {
		return
	}
	e.deleted = true
	mp.n--
	if e.sym {
		mp.nsym--
	}
	m.onUndo(func() {
		e.deleted = false
		mp.n++
		if e.sym {
			mp.nsym++
		}
	})
}

func (m *Machine) mapClear(mp *Map) {
	if mp == nil {
		return
	}
	for _, e := range mp.order {
		if !e.deleted {
			e := e
			e.deleted = true
			m.onUndo(func() { e.deleted = false })
		}
	}
	on, os := mp.n, mp.nsym
	mp.n, mp.nsym = 0, 0
	m.onUndo(func() { mp.n, mp.nsym = on, os })
}

func (m *Machine) lookup(fr *frame, in *ssa.Lookup, x, key Value) Value {
	switch a := x.(type) {
	case *Map:
		v, found := m.mapGet(fr, a, key)
		if v == nil {
			v = m.zero(in.X.Type().Underlying().(*types.Map).Elem())
		}
		if in.CommaOk {
			return Tuple{copyVal(v), found}
		}
		if !found.IsConst() {
			// value already merged with the zero value by mapGet
			return v
		}
		return copyVal(v)
	case Str:
		idx, ok := key.(T)
		if !ok {
			m.unsupported("string index %s", describe(key))
		}
		return m.strIndex(fr, a, idx, in.Index.Type())
	case Poison:
		m.unsupported("lookup in poison: %s", a.Why)
	}
	panic(fmt.Sprintf("Lookup in %T", x))
}

// ---------- iterators ----------

type iterator interface {
	next(fr *frame) Value
}

type mapIter struct {
	m    *Machine
	ents []*mapEnt
	i    int
}

func (it *mapIter) next(fr *frame) Value {
	for it.i < len(it.ents) {
		e := it.ents[it.i]
		it.i++
		if e.deleted {
			continue
		}
		return Tuple{it.m.F.True, e.key, copyVal(e.val)}
	}
	return Tuple{it.m.F.False, nil, nil}
}

type strIter struct {
	m   *Machine
	s   Str
	pos int
}

func (it *strIter) next(fr *frame) Value {
	m := it.m
	n := it.s.Len()
	if it.pos >= n {
		return Tuple{m.F.False, m.F.Const(64, 0), m.F.Const(32, 0)}
	}
	at := it.pos
	r, size := m.decodeRune(fr, it.s, it.pos)
	it.pos += size
	return Tuple{m.F.True, m.F.Const(64, uint64(at)), r}
}

func (m *Machine) rangeIter(fr *frame, t types.Type, x Value) Value {
	switch a := x.(type) {
	case *Map:
		it := &mapIter{m: m}
		if a != nil {
			it.ents = append(it.ents, a.order...)
			if m.Conf.ReverseMaps {
				for i, j := 0, len(it.ents)-1; i < j; i, j = i+1, j-1 {
					it.ents[i], it.ents[j] = it.ents[j], it.ents[i]
				}
			}
		}
		return it
	case Str:
		return &strIter{m: m, s: a}
	case Poison:
		m.unsupported("range over poison: %s", a.Why)
	}
	panic(fmt.Sprintf("range over %T", x))
}
