package sx

import (
	"fmt"
	"go/token"
	"go/types"
	"math"
	"math/bits"
	"strings"

	"golang.org/x/tools/go/ssa"
)

func nop(m *Machine, fr *frame, fn *ssa.Function, args []Value) Value { return nil }

func retTrue(m *Machine, fr *frame, fn *ssa.Function, args []Value) Value { return m.F.True }

// toNative converts a fully concrete interpreter value into a Go value
// suitable for fmt; ok=false otherwise.
func (m *Machine) toNative(v Value) (any, bool) {
	switch x := v.(type) {
	case Iface:
		if x.T == nil {
			return nil, true
		}
		b, isBasic := x.T.Underlying().(*types.Basic)
		switch p := x.V.(type) {
		case T:
			if !p.IsConst() || !isBasic {
				return nil, false
			}
			if _, named := x.T.(*types.Named); named {
				// named integer types may have String methods that fmt would call
				if ms := m.W.Prog.MethodSets.MethodSet(x.T); ms.Lookup(nil, "String") != nil || ms.Lookup(nil, "Error") != nil {
					return nil, false
				}
			}
			switch b.Kind() {
			case types.Bool:
				return p.Val != 0, true
			case types.Int:
				return int(p.SignedVal()), true
			case types.Int8:
				return int8(p.SignedVal()), true
			case types.Int16:
				return int16(p.SignedVal()), true
			case types.Int32:
				return int32(p.SignedVal()), true
			case types.Int64:
				return p.SignedVal(), true
			case types.Uint:
				return uint(p.Val), true
			case types.Uint8:
				return uint8(p.Val), true
			case types.Uint16:
				return uint16(p.Val), true
			case types.Uint32:
				return uint32(p.Val), true
			case types.Uint64:
				return p.Val, true
			case types.Uintptr:
				return uintptr(p.Val), true
			}
		case Str:
			if !isBasic {
				return nil, false
			}
			if _, named := x.T.(*types.Named); named {
				if ms := m.W.Prog.MethodSets.MethodSet(x.T); ms.Lookup(nil, "String") != nil || ms.Lookup(nil, "Error") != nil {
					return nil, false
				}
			}
			s, ok := p.Concrete()
			return s, ok
		case float64:
			if isBasic {
				return p, true
			}
		case float32:
			if isBasic {
				return p, true
			}
		case Slice:
			if st, ok := x.T.(*types.Slice); ok {
				if eb, ok := st.Elem().(*types.Basic); ok && eb.Kind() == types.Uint8 {
					raw := make([]byte, len(p.V))
					for i, e := range p.V {
						t := e.(T)
						if !t.IsConst() {
							return nil, false
						}
						raw[i] = byte(t.Val)
					}
					return raw, true
				}
			}
		}
	}
	return nil, false
}

func (m *Machine) sprintf(format Value, args Value) Value {
	fs, ok := format.(Str)
	if !ok {
		return Poison{"fmt with non-string format"}
	}
	f, ok := fs.Concrete()
	if !ok {
		return Poison{"fmt with symbolic format"}
	}
	var argv []Value
	if args != nil {
		argv = args.(Slice).V
	}
	var nat []any
	allNative := true
	for _, a := range argv {
		n, ok := m.toNative(a)
		if !ok {
			allNative = false
			break
		}
		nat = append(nat, n)
	}
	if allNative {
		return Str{S: fmt.Sprintf(f, nat...)}
	}
	// piecewise: plain verbs only (%s %v %d %q-free), symbolic strings spliced
	// in byte-wise, symbolic integers through the exact decimal model.
	var out []T
	ai := 0
	for i := 0; i < len(f); i++ {
		if f[i] != '%' {
			out = append(out, m.F.Const(8, uint64(f[i])))
			continue
		}
		if i+1 >= len(f) {
			return Poison{"fmt.Sprintf(" + f + "): trailing %"}
		}
		i++
		verb := f[i]
		if verb == '%' {
			out = append(out, m.F.Const(8, '%'))
			continue
		}
		if verb != 's' && verb != 'v' && verb != 'd' {
			return Poison{"fmt.Sprintf(" + f + ") with symbolic argument and verb %" + string(verb)}
		}
		if ai >= len(argv) {
			return Poison{"fmt.Sprintf(" + f + "): missing argument"}
		}
		a := argv[ai]
		ai++
		if n, ok := m.toNative(a); ok {
			for _, c := range []byte(fmt.Sprintf("%"+string(verb), n)) {
				out = append(out, m.F.Const(8, uint64(c)))
			}
			continue
		}
		iv, isI := a.(Iface)
		if !isI || iv.T == nil {
			return Poison{"fmt.Sprintf(" + f + ") with unrenderable argument"}
		}
		b, isBasic := iv.T.(*types.Basic) // unnamed basic types only: no String()/Error() methods to honour
		if !isBasic {
			return Poison{"fmt.Sprintf(" + f + ") with symbolic argument of type " + typeStr(iv.T)}
		}
		switch p := iv.V.(type) {
		case Str:
			if verb == 'd' {
				return Poison{"fmt.Sprintf(" + f + "): %d of string"}
			}
			out = append(out, m.strBytes(p)...)
		case T:
			if b.Info()&types.IsInteger == 0 {
				return Poison{"fmt.Sprintf(" + f + ") with symbolic " + b.Name()}
			}
			if !m.Conf.FmtInts {
				// formatting is not the subject (error messages): no digit-count forks
				return Poison{"fmt.Sprintf(" + f + ") with symbolic integer (exact integer formatting not enabled for this property)"}
			}
			out = append(out, m.formatDec(p, b.Info()&types.IsUnsigned == 0)...)
		default:
			return Poison{"fmt.Sprintf(" + f + ") with unrenderable argument"}
		}
	}
	if ai != len(argv) {
		return Poison{"fmt.Sprintf(" + f + "): extra arguments"}
	}
	return m.mkStr(out)
}

func (m *Machine) newError(fr *frame, msg Value) Value {
	fn := m.W.lookupFunc("errors", "New")
	if s, ok := msg.(Str); ok {
		return m.callFunction(fr, token.NoPos, fn, []Value{s})
	}
	// message not representable: build the error object with a poisoned text
	res := m.callFunction(fr, token.NoPos, fn, []Value{Str{S: "<unrendered>"}}).(Iface)
	p := res.V.(Ptr)
	(*p).(Struct)[0] = msg
	return res
}

func init() {
	// ---- sync (single-threaded semantics unless the scheduler is active) ----
	for _, n := range []string{"(*sync.Mutex).Lock", "(*sync.Mutex).Unlock", "(*sync.RWMutex).Lock", "(*sync.RWMutex).Unlock",
		"(*sync.RWMutex).RLock", "(*sync.RWMutex).RUnlock"} {
		name := n
		register(name, func(m *Machine, fr *frame, fn *ssa.Function, args []Value) Value {
			return m.mutexOp(fr, name, args[0])
		})
	}
	for _, n := range []string{"(*sync.Mutex).TryLock", "(*sync.RWMutex).TryLock"} {
		name := n
		register(name, func(m *Machine, fr *frame, fn *ssa.Function, args []Value) Value {
			return m.mutexOp(fr, name, args[0])
		})
	}
	register("(*sync.Once).Do", func(m *Machine, fr *frame, fn *ssa.Function, args []Value) Value {
		p := args[0].(Ptr)
		st := (*p).(Struct)
		// field 0 is `done` (atomic.Uint32 struct or uint32 depending on Go version): use a side table
		key := &st[0]
		if m.onceDone == nil {
			m.onceDone = map[Ptr]bool{}
		}
		if m.onceDone[key] {
			return nil
		}
		m.onceDone[key] = true
		m.onUndo(func() { delete(m.onceDone, key) })
		m.call(fr, token.NoPos, args[1], nil)
		return nil
	})
	register("(*sync.Pool).Get", func(m *Machine, fr *frame, fn *ssa.Function, args []Value) Value {
		p := args[0].(Ptr)
		st := (*p).(Struct)
		newFn := st[len(st)-1]
		if f, ok := newFn.(*ssa.Function); ok && f == nil {
			return Iface{}
		}
		return m.call(fr, token.NoPos, newFn, nil)
	})
	register("(*sync.Pool).Put", nop)
	register("(*sync.WaitGroup).Add", func(m *Machine, fr *frame, fn *ssa.Function, args []Value) Value {
		d, ok := args[1].(T)
		if !ok || !d.IsConst() {
			m.unsupported("WaitGroup.Add with a symbolic delta")
		}
		m.wgOp(fr, "add", args[0], d.SignedVal())
		return nil
	})
	register("(*sync.WaitGroup).Done", func(m *Machine, fr *frame, fn *ssa.Function, args []Value) Value {
		m.wgOp(fr, "add", args[0], -1)
		return nil
	})
	register("(*sync.WaitGroup).Wait", func(m *Machine, fr *frame, fn *ssa.Function, args []Value) Value {
		m.wgOp(fr, "wait", args[0], 0)
		return nil
	})

	// ---- sync/atomic raw functions ----
	for _, ty := range []string{"Int32", "Int64", "Uint32", "Uint64", "Uintptr", "Pointer"} {
		register("sync/atomic.Load"+ty, func(m *Machine, fr *frame, fn *ssa.Function, args []Value) Value {
			m.yield(fr, "atomic.Load")
			return m.load(fr, args[0])
		})
		register("sync/atomic.Store"+ty, func(m *Machine, fr *frame, fn *ssa.Function, args []Value) Value {
			m.yield(fr, "atomic.Store")
			m.store(fr, nil, args[0], args[1])
			return nil
		})
		register("sync/atomic.Swap"+ty, func(m *Machine, fr *frame, fn *ssa.Function, args []Value) Value {
			m.yield(fr, "atomic.Swap")
			old := m.load(fr, args[0])
			m.store(fr, nil, args[0], args[1])
			return old
		})
		register("sync/atomic.CompareAndSwap"+ty, func(m *Machine, fr *frame, fn *ssa.Function, args []Value) Value {
			m.yield(fr, "atomic.CAS")
			cur := m.load(fr, args[0])
			eq := m.equals(nil, cur, args[1])
			if m.Decide(eq) {
				m.store(fr, nil, args[0], args[2])
				return m.F.True
			}
			return m.F.False
		})
		if ty != "Pointer" {
			register("sync/atomic.Add"+ty, func(m *Machine, fr *frame, fn *ssa.Function, args []Value) Value {
				m.yield(fr, "atomic.Add")
				cur := m.load(fr, args[0]).(T)
				nv := m.F.Add(cur, args[1].(T))
				m.store(fr, nil, args[0], nv)
				return nv
			})
		}
	}

	// ---- fmt / errors ----
	register("fmt.Sprintf", func(m *Machine, fr *frame, fn *ssa.Function, args []Value) Value {
		return m.sprintf(args[0], args[1])
	})
	register("fmt.Sprint", func(m *Machine, fr *frame, fn *ssa.Function, args []Value) Value {
		vs := args[0].(Slice).V
		if len(vs) == 1 {
			return m.sprintf(Str{S: "%v"}, args[0])
		}
		return Poison{"fmt.Sprint"}
	})
	register("fmt.Errorf", func(m *Machine, fr *frame, fn *ssa.Function, args []Value) Value {
		msg := m.sprintfErr(args[0], args[1])
		// %w wrapping: keep the wrapped error reachable through Unwrap
		if f, ok := args[0].(Str); ok {
			if fs, ok := f.Concrete(); ok && strings.Contains(fs, "%w") {
				for _, a := range args[1].(Slice).V {
					if iv, ok := a.(Iface); ok && iv.T != nil && types.Implements(iv.T, errorIface) {
						if wt := m.W.SSAPkgs["fmt"].Type("wrapError"); wt != nil {
							p := new(Value)
							*p = Struct{msg, iv}
							return Iface{T: types.NewPointer(wt.Type()), V: Ptr(p)}
						}
					}
				}
			}
		}
		return m.newError(fr, msg)
	})
	for _, n := range []string{"fmt.Println", "fmt.Printf", "fmt.Print"} {
		register(n, func(m *Machine, fr *frame, fn *ssa.Function, args []Value) Value {
			return Tuple{m.F.Const(64, 0), Iface{}}
		})
	}
	register("gopkg.in/src-d/go-errors.v1.NewStackTrace", func(m *Machine, fr *frame, fn *ssa.Function, args []Value) Value {
		return Slice{}
	})
	register("errors.Is", func(m *Machine, fr *frame, fn *ssa.Function, args []Value) Value {
		err, target := args[0].(Iface), args[1].(Iface)
		for depth := 0; depth < 10; depth++ {
			if err.T == nil {
				return m.F.Bool(target.T == nil)
			}
			if target.T != nil && types.Identical(err.T, target.T) && types.Comparable(err.T) {
				if m.Decide(m.equals(err.T, err.V, target.V)) {
					return m.F.True
				}
			}
			uw := m.W.Prog.LookupMethod(err.T, nil, "Unwrap")
			if uw == nil || uw.Signature.Results().Len() != 1 {
				return m.F.False
			}
			next, ok := m.callFunction(fr, token.NoPos, uw, []Value{err.V}).(Iface)
			if !ok {
				return m.F.False
			}
			err = next
		}
		return m.F.False
	})

	// ---- logging / tracing: empty bodies ----
	for _, n := range []string{"Debug", "Debugf", "Info", "Infof", "Warn", "Warnf", "Error", "Errorf", "Trace", "Tracef", "Warning", "Warningf", "Print", "Printf", "Println"} {
		register("github.com/sirupsen/logrus."+n, nop)
		register("(*github.com/sirupsen/logrus.Entry)."+n, nop)
		register("(*github.com/sirupsen/logrus.Logger)."+n, nop)
	}
	register("runtime/debug.Stack", func(m *Machine, fr *frame, fn *ssa.Function, args []Value) Value { return Slice{} })
	register("runtime.KeepAlive", nop)
	register("runtime.Gosched", nop)

	// ---- math/bits: wide arithmetic as terms ----
	register("math/bits.Mul64", func(m *Machine, fr *frame, fn *ssa.Function, args []Value) Value {
		x, y := args[0].(T), args[1].(T)
		if x.IsConst() && y.IsConst() {
			hi, lo := bits.Mul64(x.Val, y.Val)
			return Tuple{m.F.Const(64, hi), m.F.Const(64, lo)}
		}
		p := m.F.Mul(m.F.Zext(x, 128), m.F.Zext(y, 128))
		return Tuple{m.F.Extract(p, 127, 64), m.F.Extract(p, 63, 0)}
	})
	register("math/bits.Add64", func(m *Machine, fr *frame, fn *ssa.Function, args []Value) Value {
		x, y, c := args[0].(T), args[1].(T), args[2].(T)
		s := m.F.Add(m.F.Add(m.F.Zext(x, 65), m.F.Zext(y, 65)), m.F.Zext(c, 65))
		if x.IsConst() && y.IsConst() && c.IsConst() {
			sum, carry := bits.Add64(x.Val, y.Val, c.Val&1)
			return Tuple{m.F.Const(64, sum), m.F.Const(64, carry)}
		}
		return Tuple{m.F.Extract(s, 63, 0), m.F.Zext(m.F.Extract(s, 64, 64), 64)}
	})
	register("math/bits.Sub64", func(m *Machine, fr *frame, fn *ssa.Function, args []Value) Value {
		x, y, b := args[0].(T), args[1].(T), args[2].(T)
		if x.IsConst() && y.IsConst() && b.IsConst() {
			d, bo := bits.Sub64(x.Val, y.Val, b.Val&1)
			return Tuple{m.F.Const(64, d), m.F.Const(64, bo)}
		}
		s := m.F.Sub(m.F.Sub(m.F.Zext(x, 65), m.F.Zext(y, 65)), m.F.Zext(b, 65))
		return Tuple{m.F.Extract(s, 63, 0), m.F.Zext(m.F.Extract(s, 64, 64), 64)}
	})
	// ---- math: float bit casts on concrete values ----
	register("math.Float64bits", func(m *Machine, fr *frame, fn *ssa.Function, args []Value) Value {
		switch f := args[0].(type) {
		case float64:
			return m.F.Const(64, math.Float64bits(f))
		case FloatSym:
			return f.Bits
		}
		m.unsupported("math.Float64bits of %T", args[0])
		return nil
	})
	register("math.Float64frombits", func(m *Machine, fr *frame, fn *ssa.Function, args []Value) Value {
		t := args[0].(T)
		if t.IsConst() {
			return math.Float64frombits(t.Val)
		}
		return FloatSym{Bits: t}
	})
	register("math.Float32bits", func(m *Machine, fr *frame, fn *ssa.Function, args []Value) Value {
		if f, ok := args[0].(float32); ok {
			return m.F.Const(32, uint64(math.Float32bits(f)))
		}
		m.unsupported("math.Float32bits of %T", args[0])
		return nil
	})
	register("math.Float32frombits", func(m *Machine, fr *frame, fn *ssa.Function, args []Value) Value {
		t := args[0].(T)
		if t.IsConst() {
			return math.Float32frombits(uint32(t.Val))
		}
		m.unsupported("symbolic float32")
		return nil
	})
	mathF := map[string]func(float64) float64{"Floor": math.Floor, "Ceil": math.Ceil, "Trunc": math.Trunc, "Abs": math.Abs, "Sqrt": math.Sqrt,
		"Log": math.Log, "Log2": math.Log2, "Log10": math.Log10, "Exp": math.Exp, "Round": math.Round, "RoundToEven": math.RoundToEven}
	for n, f := range mathF {
		f := f
		register("math."+n, func(m *Machine, fr *frame, fn *ssa.Function, args []Value) Value {
			x, ok := args[0].(float64)
			if !ok {
				m.unsupported("math.%s on %T", fn.Name(), args[0])
			}
			return f(x)
		})
	}
	register("math.Pow", func(m *Machine, fr *frame, fn *ssa.Function, args []Value) Value {
		x, ok1 := args[0].(float64)
		y, ok2 := args[1].(float64)
		if !ok1 || !ok2 {
			m.unsupported("math.Pow on symbolic")
		}
		return math.Pow(x, y)
	})
	register("math.IsNaN", func(m *Machine, fr *frame, fn *ssa.Function, args []Value) Value {
		x, ok := args[0].(float64)
		if !ok {
			m.unsupported("math.IsNaN on %T", args[0])
		}
		return m.F.Bool(math.IsNaN(x))
	})
	register("math.IsInf", func(m *Machine, fr *frame, fn *ssa.Function, args []Value) Value {
		x, ok := args[0].(float64)
		if !ok {
			m.unsupported("math.IsInf on %T", args[0])
		}
		return m.F.Bool(math.IsInf(x, int(args[1].(T).SignedVal())))
	})
	register("math.Inf", func(m *Machine, fr *frame, fn *ssa.Function, args []Value) Value {
		return math.Inf(int(args[0].(T).SignedVal()))
	})
	register("math.NaN", func(m *Machine, fr *frame, fn *ssa.Function, args []Value) Value { return math.NaN() })

	// ---- unsafe-based zero-copy casts in the repo ----
	register(ModulePath+"/sql/encodings.BytesToString", func(m *Machine, fr *frame, fn *ssa.Function, args []Value) Value {
		s := args[0].(Slice)
		bs := make([]T, len(s.V))
		for i, e := range s.V {
			bs[i] = e.(T)
		}
		return m.mkStr(bs)
	})
	register(ModulePath+"/sql/encodings.StringToBytes", func(m *Machine, fr *frame, fn *ssa.Function, args []Value) Value {
		s := args[0].(Str)
		bs := m.strBytes(s)
		out := make([]Value, len(bs), len(bs))
		for i, b := range bs {
			out[i] = b
		}
		return Slice{V: out}
	})
	register("unsafe.String", func(m *Machine, fr *frame, fn *ssa.Function, args []Value) Value {
		m.unsupported("unsafe.String")
		return nil
	})
}

func (m *Machine) sprintfErr(format Value, args Value) Value {
	fs, ok := format.(Str)
	if ok {
		if f, ok := fs.Concrete(); ok && strings.Contains(f, "%w") {
			return Poison{"fmt.Errorf message"}
		}
	}
	return m.sprintf(format, args)
}
