package sx

import (
	"strconv"

	"golang.org/x/tools/go/ssa"
)

// Exact models of integer formatting for symbolic operands: the digit count
// is decided by forking (at most 20 ways), each digit is '0'+(v/10^k)%10
// computed at the narrowest width that holds the value.

var pow10 = [...]uint64{1, 10, 100, 1000, 10000, 100000, 1000000, 10000000, 100000000, 1000000000, 10000000000,
	100000000000, 1000000000000, 10000000000000, 100000000000000, 1000000000000000, 10000000000000000,
	100000000000000000, 1000000000000000000, 10000000000000000000}

func (m *Machine) formatDec(v T, signed bool) []T {
	F := m.F
	if v.W < 64 {
		if signed {
			v = F.Sext(v, 64)
		} else {
			v = F.Zext(v, 64)
		}
	}
	var out []T
	abs := v
	if signed && m.Decide(F.Slt(v, F.Const(64, 0))) {
		out = append(out, F.Const(8, '-'))
		abs = F.Neg(v)
	}
	n := 20
	for k := 1; k < 20; k++ {
		if m.Decide(F.Ult(abs, F.Const(64, pow10[k]))) {
			n = k
			break
		}
	}
	w := 64
	switch {
	case n <= 2:
		w = 8
	case n <= 4:
		w = 16
	case n <= 9:
		w = 32
	}
	a := F.Extract(abs, w-1, 0)
	for k := n - 1; k >= 0; k-- {
		d := a
		if k > 0 {
			d = F.UDiv(a, F.Const(w, pow10[k]))
		}
		if k < n-1 {
			d = F.URem(d, F.Const(w, 10))
		}
		out = append(out, F.Add(F.Extract(d, 7, 0), F.Const(8, '0')))
	}
	return out
}

// formatPow2 formats an unsigned value in base 2^shift (digit count by fork).
func (m *Machine) formatPow2(v T, shift int) []T {
	F := m.F
	v = F.Zext(v, 64)
	maxDigits := (64 + shift - 1) / shift
	n := maxDigits
	for k := 1; k < maxDigits; k++ {
		if m.Decide(F.Ult(v, F.Const(64, uint64(1)<<uint(k*shift)))) {
			n = k
			break
		}
	}
	const digits = "0123456789abcdefghijklmnopqrstuvwxyz"
	var out []T
	mask := F.Const(64, uint64(1)<<uint(shift)-1)
	for k := n - 1; k >= 0; k-- {
		d := F.BAnd(F.LShr(v, F.Const(64, uint64(k*shift))), mask)
		d8 := F.Extract(d, 7, 0)
		ch := F.Ite(F.Ult(d8, F.Const(8, 10)), F.Add(d8, F.Const(8, '0')), F.Add(d8, F.Const(8, 'a'-10)))
		out = append(out, ch)
	}
	return out
}

func (m *Machine) formatInt(fr *frame, v T, base int, signed bool) (Str, bool) {
	if v.IsConst() {
		if signed {
			return Str{S: strconv.FormatInt(v.SignedVal(), base)}, true
		}
		return Str{S: strconv.FormatUint(v.Val, base)}, true
	}
	switch base {
	case 10:
		return m.mkStr(m.formatDec(v, signed)), true
	case 2, 4, 8, 16, 32:
		shift := map[int]int{2: 1, 4: 2, 8: 3, 16: 4, 32: 5}[base]
		F := m.F
		if signed {
			v = F.Sext(v, 64)
			if m.Decide(F.Slt(v, F.Const(64, 0))) {
				return m.mkStr(append([]T{F.Const(8, '-')}, m.formatPow2(F.Neg(v), shift)...)), true
			}
		}
		return m.mkStr(m.formatPow2(v, shift)), true
	}
	return Str{}, false
}

func init() {
	register("strconv.Itoa", func(m *Machine, fr *frame, fn *ssa.Function, args []Value) Value {
		s, _ := m.formatInt(fr, args[0].(T), 10, true)
		return s
	})
	register("strconv.FormatInt", func(m *Machine, fr *frame, fn *ssa.Function, args []Value) Value {
		base := intArg(m, args[1], "FormatInt base")
		s, ok := m.formatInt(fr, args[0].(T), base, true)
		if !ok {
			return runRealBody{} // other bases: the library's own digit loop is interpreted
		}
		return s
	})
	register("strconv.FormatUint", func(m *Machine, fr *frame, fn *ssa.Function, args []Value) Value {
		base := intArg(m, args[1], "FormatUint base")
		s, ok := m.formatInt(fr, args[0].(T), base, false)
		if !ok {
			return runRealBody{}
		}
		return s
	})
	appendFmt := func(signed bool) Intrinsic {
		return func(m *Machine, fr *frame, fn *ssa.Function, args []Value) Value {
			base := intArg(m, args[2], "AppendInt base")
			s, ok := m.formatInt(fr, args[1].(T), base, signed)
			if !ok {
				m.unsupported("strconv.Append(U)int of symbolic value in base %d", base)
			}
			dst := args[0].(Slice)
			bs := m.strBytes(s)
			add := make([]Value, len(bs))
			for i, b := range bs {
				add[i] = b
			}
			return m.appendBytes(dst, add)
		}
	}
	register("strconv.AppendInt", appendFmt(true))
	register("strconv.AppendUint", appendFmt(false))
}

// appendBytes is append(dst, add...) for byte slices with Go's aliasing
// semantics: spare capacity of dst is written in place (callers such as
// strconv.AppendInt(buf[i:i], …) rely on the write reaching buf's array).
func (m *Machine) appendBytes(dst Slice, add []Value) Slice {
	n := len(dst.V)
	if len(add) == 0 {
		return dst
	}
	if dst.V != nil && n+len(add) <= cap(dst.V) {
		out := dst.V[:n+len(add)]
		for i, e := range add {
			m.storeAt(&out[n+i], e)
		}
		return Slice{V: out}
	}
	nc := 2 * cap(dst.V)
	if nc < n+len(add) {
		nc = n + len(add)
	}
	out := make([]Value, n+len(add), nc)
	copy(out, dst.V)
	copy(out[n:], add)
	z := m.F.Const(8, 0)
	full := out[:nc]
	for i := n + len(add); i < nc; i++ {
		full[i] = z
	}
	return Slice{V: out}
}
