package sx

import (
	"fmt"
	"go/token"
	"go/types"
	"os"
	"sort"
	"strings"
	"time"

	"golang.org/x/tools/go/ssa"

	"verif/engine/solver"
	"verif/engine/sym"
)

// Config are the per-harness bounds.
type Config struct {
	Unwind        int           // max back-edges per loop header per frame
	MaxSteps      int           // max SSA instructions per path
	MaxPaths      int           // max completed paths per harness
	MaxTime       time.Duration // wall budget per harness
	SolverKind    string
	SolverMS      int
	Concrete      map[string]uint64 // concrete mode: nd values by name (conformance / replay-in-executor)
	ConcreteSet   bool
	ReverseMaps   bool
	BranchMS      int             // solver timeout for branch-feasibility queries (unknown = keep both sides)
	Merge         map[string]bool // callees executed with path merging (must be statically pure)
	Tier          int             // 0 quick, 1 thorough (read by harnesses through nd.Tier/nd.Bound)
	Trace         bool
	HashInjective bool            // assume the hash UFs are collision-free on the explored pre-images
	StubText      map[string]bool // functions (full ssa names) whose string result is only message text: replaced by a placeholder
	FmtInts       bool            // fmt.Sprintf renders symbolic integers exactly (forks on the digit count)
	MaxPreempt    int             // bound on preemptive context switches per path (0 = default 3)
	ConcreteSched bool            // concrete mode still uses the scheduler (schedule replay)
	NoIfConv      bool            // disable if-conversion of side-effect-free diamonds (debugging)
}

// CE is a counterexample found on a path.
type CE struct {
	ID      string            // assertion id or "panic:<site>"
	Kind    string            // "assert" | "panic"
	Msg     string            // extra description
	Model   map[string]uint64 // nd variable values
	Widths  map[string]int
	Choices map[string]int64 // IntRange / Pick concrete decisions
	Sched   []int            // thread chosen at each scheduling decision (concurrent harnesses)
	Where   string
}

type pathEnd struct {
	kind   string // infeasible | unsupported | unwind | budget | internal
	detail string
}

// GoPanic is an interpreted Go panic travelling up the interpreter stack.
type GoPanic struct {
	V     Value
	Site  string // where it was raised (function name + kind)
	RT    bool   // runtime error (index, nil deref, div by zero, type assertion)
	Stack string
}

type undoRec struct {
	p   *Value
	old Value
	fn  func()
}

// Machine is one worker: an interpreter heap plus a solver process.
type Machine struct {
	W    *World
	F    *sym.Factory
	S    *solver.Solver
	Conf Config

	globals  map[*ssa.Global]*Value
	initDone map[*ssa.Package]bool
	initing  bool
	journal  []undoRec
	inPath   bool

	// per-path state
	prefix      []int32
	trace       []int32
	pc          []T
	model       *sym.Evaluator
	ndVars      map[string]T
	choices     map[string]int64
	steps       int
	depth       int
	ces         []CE
	reached     map[string]bool
	observes    []string
	asserted    map[string]bool // assert ids evaluated on this path
	notes       []string
	threads     *sched
	ufInj       map[string][]T
	onceDone    map[Ptr]bool
	hashAcc     map[Ptr][]T
	hashTainted map[Ptr]bool
	taintSeq    int
	typeHandles map[string]*Opaque
	embedsDone  map[*ssa.Package]bool
	initSkipped map[*ssa.Package]bool
	files       map[string]*memFile
	uniqueTab   map[string]Ptr
	fileOf      map[Ptr]*memFile
	ufApps      map[string][]ufApp
	curH        int
	lastH       int
	lastHSet    bool
	deadline    time.Time
	sumCache    map[string][]*sumEntry
	sumCacheN   int
	curFn       string // racy debug info: function currently interpreted
	scope       *sumScope

	InitNotes []string

	Stats MStats
}

type MStats struct {
	Paths        int
	Infeasible   int
	Unsupported  map[string]int
	Unwind       int
	Budget       int
	Internal     map[string]int
	AssertChecks int
	AssertUnsat  int
	AssertSat    int
	AssertUnk    int
	BranchQ      int
	Steps        int64
	MergedCalls  int
	MergedPaths  int
	IfConverted  int
}

func (m *Machine) abort(kind, format string, a ...any) {
	panic(pathEnd{kind, fmt.Sprintf(format, a...)})
}

func (m *Machine) unsupported(format string, a ...any) {
	if m.initing {
		panic(pathEnd{"unsupported", fmt.Sprintf(format, a...)})
	}
	panic(pathEnd{"unsupported", fmt.Sprintf(format, a...)})
}

// ---------- journal ----------

func (m *Machine) set(p *Value, v Value) {
	if m.inPath {
		m.journal = append(m.journal, undoRec{p: p, old: *p})
	}
	*p = v
}

func (m *Machine) onUndo(fn func()) {
	if m.inPath {
		m.journal = append(m.journal, undoRec{fn: fn})
	}
}

func (m *Machine) rollback() {
	for i := len(m.journal) - 1; i >= 0; i-- {
		r := &m.journal[i]
		if r.fn != nil {
			r.fn()
		} else {
			*r.p = r.old
		}
	}
	m.journal = m.journal[:0]
}

// ---------- path condition and decisions ----------

func (m *Machine) addPC(c T) {
	if c.IsConst() {
		if c.Val == 0 {
			m.abort("infeasible", "false path condition")
		}
		return
	}
	m.pc = append(m.pc, c)
	m.S.Assert(c)
}

// checkDeadline ends the current path when the harness's wall budget is used
// up (the budget is otherwise only examined between paths).
func (m *Machine) checkDeadline() {
	if !m.deadline.IsZero() && m.inPath && time.Now().After(m.deadline) {
		m.abort("budget", "harness time budget exhausted inside a path")
	}
}

func (m *Machine) ensureModel() {
	if m.model != nil {
		return
	}
	m.checkDeadline()
	r := m.S.CheckT(m.Conf.BranchMS)
	m.Stats.BranchQ++
	switch r {
	case solver.Sat:
		env, ok := m.S.Model(m.F.Vars)
		if !ok {
			env = nil
		}
		if env != nil {
			ev := sym.NewEvaluator(env)
			// validate: the model must satisfy every pc conjunct we can evaluate
			good := true
			for _, c := range m.pc {
				if v, ok := ev.Eval(c); ok && v == 0 {
					good = false
					break
				}
			}
			if good {
				m.model = ev
			}
		}
	case solver.Unsat:
		m.abort("infeasible", "path condition unsat")
	}
}

// evalModel evaluates c under the cached model; ok=false if not available.
func (m *Machine) evalModel(c T) (bool, bool) {
	if m.model == nil {
		return false, false
	}
	v, ok := m.model.Eval(c)
	return v != 0, ok
}

// feasible asks whether pc ∧ c is satisfiable. Unknown counts as feasible.
func (m *Machine) feasible(c T) bool {
	if c.IsConst() {
		return c.Val != 0
	}
	m.checkDeadline()
	if v, ok := m.evalModel(c); ok && v {
		return true
	}
	m.Stats.BranchQ++
	r := m.S.CheckT(m.Conf.BranchMS, c)
	if r == solver.Sat {
		m.S.EndModel()
	}
	return r != solver.Unsat
}

// Decide resolves a symbolic branch condition, forking when both sides are
// feasible. The decision is recorded in the trace so that re-execution along
// a prefix needs no solver calls.
func (m *Machine) Decide(c T) bool {
	if c.IsConst() {
		return c.Val != 0
	}
	if m.Conf.ConcreteSet {
		panic(pathEnd{"internal", "symbolic condition in concrete mode: " + c.String()})
	}
	pos := len(m.trace)
	pfx, base := m.prefix, 0
	if m.scope != nil {
		pfx, base = m.scope.prefix, m.scope.base
	}
	if pos-base < len(pfx) {
		d := pfx[pos-base]
		m.trace = append(m.trace, d)
		if d != 0 {
			m.addPC(c)
		} else {
			m.addPC(m.F.Not(c))
		}
		if m.model != nil {
			if v, ok := m.evalModel(c); !ok || v != (d != 0) {
				m.model = nil
			}
		}
		return d != 0
	}
	if m.model == nil {
		m.ensureModel()
	}
	var tFeas, fFeas bool
	if v, ok := m.evalModel(c); ok {
		if v {
			tFeas = true
			fFeas = m.feasible(m.F.Not(c))
		} else {
			fFeas = true
			tFeas = m.feasible(c)
		}
	} else {
		tFeas = m.feasible(c)
		if !tFeas {
			fFeas = true
		} else {
			fFeas = m.feasible(m.F.Not(c))
		}
	}
	var d bool
	switch {
	case tFeas && fFeas:
		// follow the side the model satisfies (true if unknown)
		d = true
		if v, ok := m.evalModel(c); ok {
			d = v
		} else {
			m.model = nil
		}
		alt := make([]int32, pos+1-base)
		copy(alt, m.trace[base:])
		if d {
			alt[pos-base] = 0
		} else {
			alt[pos-base] = 1
		}
		m.pushAlt(alt)
	case tFeas:
		d = true
	case fFeas:
		d = false
	default:
		m.abort("infeasible", "both sides infeasible")
	}
	if d {
		m.trace = append(m.trace, 1)
		m.addPC(c)
	} else {
		m.trace = append(m.trace, 0)
		m.addPC(m.F.Not(c))
	}
	return d
}

// Fork is a pure n-way nondeterministic choice (no condition).
func (m *Machine) Fork(n int) int {
	if n <= 1 {
		return 0
	}
	pos := len(m.trace)
	pfx, base := m.prefix, 0
	if m.scope != nil {
		pfx, base = m.scope.prefix, m.scope.base
	}
	if pos-base < len(pfx) {
		d := pfx[pos-base]
		m.trace = append(m.trace, d)
		return int(d)
	}
	for i := 1; i < n; i++ {
		alt := make([]int32, pos+1-base)
		copy(alt, m.trace[base:])
		alt[pos-base] = int32(i)
		m.pushAlt(alt)
	}
	m.trace = append(m.trace, 0)
	return 0
}

// Assume restricts the path.
func (m *Machine) Assume(c T) {
	if c.IsConst() {
		if c.Val == 0 {
			m.abort("infeasible", "assume false")
		}
		return
	}
	if v, ok := m.evalModel(c); ok && v {
		m.addPC(c)
		return
	}
	m.addPC(c)
	m.model = nil
	m.Stats.BranchQ++
	r := m.S.CheckT(m.Conf.BranchMS)
	if r == solver.Unsat {
		m.abort("infeasible", "assume unsat")
	}
}

// Assert checks an obligation; a violation is recorded with a model and the
// path continues under the assumption that the condition holds.
func (m *Machine) Assert(id string, c T, where string) {
	m.Stats.AssertChecks++
	m.asserted[id] = true
	if c.IsConst() {
		if c.Val != 0 {
			m.Stats.AssertUnsat++
			return
		}
		// violated on every input of this path — provided the path is feasible at
		// all: branch-feasibility queries run under a short timeout and "unknown"
		// keeps the path, so feasibility is re-established here with the full budget
		if m.Conf.ConcreteSet {
			m.recordCE(id, "assert", where, map[string]uint64{})
			m.Stats.AssertSat++
			m.abort("infeasible", "assertion definitely false; path ends")
		}
		switch m.S.Check() {
		case solver.Sat:
			env, ok := m.S.Model(m.F.Vars)
			if !ok {
				m.Stats.AssertUnk++
				m.note("assert %s: constant false, path sat but model unreadable: %s", id, m.S.LastErr)
			} else {
				m.recordCE(id, "assert", where, env)
				m.Stats.AssertSat++
			}
		case solver.Unsat:
			m.abort("infeasible", "path condition unsat (found at a constant-false assertion)")
		default:
			m.Stats.AssertUnk++
			m.note("assert %s: constant false on a path whose feasibility the solver did not decide (%s)", id, m.S.LastErr)
		}
		m.abort("infeasible", "assertion definitely false; path ends")
	}
	if m.Conf.ConcreteSet {
		panic(pathEnd{"internal", "symbolic assert in concrete mode"})
	}
	nc := m.F.Not(c)
	if v, ok := m.evalModel(nc); ok && v {
		m.recordCE(id, "assert", where, m.currentEnv())
		m.Stats.AssertSat++
	} else {
		r := m.S.Check(nc)
		switch r {
		case solver.Sat:
			env, ok := m.S.Model(m.F.Vars)
			m.S.EndModel()
			if !ok {
				m.Stats.AssertUnk++
				m.note("assert %s: sat but model unreadable: %s", id, m.S.LastErr)
			} else {
				m.recordCE(id, "assert", where, env)
				m.Stats.AssertSat++
			}
		case solver.Unsat:
			m.Stats.AssertUnsat++
		default:
			m.Stats.AssertUnk++
			m.note("assert %s: solver unknown (%s)", id, m.S.LastErr)
		}
	}
	m.Assume(c)
}

func (m *Machine) note(format string, a ...any) {
	if len(m.notes) < 50 {
		m.notes = append(m.notes, fmt.Sprintf(format, a...))
	}
}

func (m *Machine) currentEnv() map[string]uint64 {
	if m.model == nil {
		m.ensureModel()
	}
	env := map[string]uint64{}
	if m.model != nil {
		for k, v := range m.model.Env {
			env[k] = v
		}
	}
	return env
}

func (m *Machine) recordCE(id, kind, where string, env map[string]uint64) {
	if os.Getenv("VERIF_DEBUGCE") != "" {
		fmt.Fprintf(os.Stderr, "DEBUGCE %s env=%v\n  pc:\n", id, env)
		for _, c := range m.pc {
			v, ok := sym.Eval(c, env)
			fmt.Fprintf(os.Stderr, "    [%v %v] %s\n", v, ok, clipStr(c.String(), 300))
		}
	}
	ce := CE{ID: id, Kind: kind, Where: where, Model: map[string]uint64{}, Widths: map[string]int{}, Choices: map[string]int64{}}
	for name, v := range m.ndVars {
		ce.Model[name] = env[v.Name]
		ce.Widths[name] = v.W
	}
	for k, v := range m.choices {
		ce.Choices[k] = v
	}
	if m.threads != nil {
		ce.Sched = append([]int(nil), m.threads.choices...)
	}
	m.ces = append(m.ces, ce)
}

// ---------- running paths ----------

// PathResult is what one explored path reports to the world.
type PathResult struct {
	End      pathEnd
	CEs      []CE
	Reached  []string
	Observes []string
	Asserted []string
	Notes    []string
	Steps    int
	Choices  map[string]int64
	Panic    string
}

func (m *Machine) RunPath(fn *ssa.Function, prefix []int32) (res PathResult) {
	m.prefix = prefix
	m.trace = m.trace[:0]
	m.pc = m.pc[:0]
	m.model = nil
	m.ndVars = map[string]T{}
	m.choices = map[string]int64{}
	m.steps = 0
	m.depth = 0
	m.ces = nil
	m.reached = map[string]bool{}
	m.asserted = map[string]bool{}
	m.observes = nil
	m.notes = nil
	m.threads = nil
	m.scope = nil
	m.files = nil
	m.fileOf = nil
	m.ufInj = map[string][]T{}
	m.S.PopTo(0)
	m.S.Push()
	m.inPath = true
	if m.Conf.ConcreteSet {
		m.model = sym.NewEvaluator(map[string]uint64{})
	}
	defer func() {
		defer func() {
			m.inPath = false
			m.rollback()
			m.S.PopTo(0)
		}()
		if r := recover(); r != nil {
			switch r := r.(type) {
			case pathEnd:
				res.End = r
			case *GoPanic:
				// uncaught Go panic at harness top level = crash counterexample
				res.End = pathEnd{"panic", r.Site}
				res.Panic = r.Site + ": " + describe(r.V)
				if !m.Conf.ConcreteSet {
					func() {
						defer func() {
							if r2 := recover(); r2 != nil {
								if pe, ok := r2.(pathEnd); ok {
									res.End = pe
									return
								}
								panic(r2)
							}
						}()
						if m.model == nil {
							m.ensureModel()
						}
						if m.model == nil {
							// feasibility not known from the short branch queries: decide it now
							switch m.S.Check() {
							case solver.Sat:
								if env, ok := m.S.Model(m.F.Vars); ok {
									m.model = sym.NewEvaluator(env)
								}
							case solver.Unsat:
								res.End = pathEnd{"infeasible", "path condition unsat (found at a panic)"}
								return
							}
							if m.model == nil {
								res.End = pathEnd{"budget", "panic " + r.Site + " on a path whose feasibility the solver did not decide"}
								return
							}
						}
						m.recordCE("panic:"+r.Site, "panic", describe(r.V), m.currentEnv())
					}()
				}
			default:
				res.End = pathEnd{"internal", fmt.Sprintf("%v\n%s", r, goStack())}
			}
		} else {
			res.End = pathEnd{"done", ""}
		}
		res.CEs = m.ces
		for k := range m.reached {
			res.Reached = append(res.Reached, k)
		}
		for k := range m.asserted {
			res.Asserted = append(res.Asserted, k)
		}
		sort.Strings(res.Reached)
		res.Observes = m.observes
		res.Notes = m.notes
		res.Steps = m.steps
		res.Choices = m.choices
		m.Stats.Steps += int64(m.steps)
	}()
	m.callFunction(nil, token.NoPos, fn, nil)
	m.waitAll(nil) // goroutines the harness started run to completion
	return
}

func goStack() string {
	buf := make([]byte, 1<<14)
	n := runtimeStack(buf)
	s := string(buf[:n])
	lines := strings.Split(s, "\n")
	if len(lines) > 40 {
		lines = lines[:40]
	}
	return strings.Join(lines, "\n")
}

// helpers on types

func isSigned(t types.Type) bool {
	if b, ok := t.Underlying().(*types.Basic); ok {
		return b.Info()&types.IsUnsigned == 0 && b.Info()&types.IsInteger != 0
	}
	return false
}

func clipStr(s string, n int) string {
	if len(s) > n {
		return s[:n] + "…"
	}
	return s
}
