package sx

import (
	"fmt"
	"go/types"
	"os"
	"path/filepath"
	"strings"
	"sync"
	"time"

	"golang.org/x/tools/go/packages"
	"golang.org/x/tools/go/ssa"
	"golang.org/x/tools/go/ssa/ssautil"
)

const ModulePath = "github.com/dolthub/go-mysql-server"
const NdPath = ModulePath + "/internal/zzverifnd"

type Intrinsic func(m *Machine, fr *frame, fn *ssa.Function, args []Value) Value

// World is the loaded program plus the shared path work-list.
type World struct {
	Prog     *ssa.Program
	Pkgs     []*packages.Package
	SSAPkgs  map[string]*ssa.Package
	LoadTime time.Duration
	SSATime  time.Duration

	infoMu sync.Mutex
	infos  map[*ssa.Function]*fnInfo

	intrMu    sync.Mutex
	intrCache map[*ssa.Function]Intrinsic

	qmu     sync.Mutex
	qcond   *sync.Cond
	queue   []task
	dead    map[int]bool
	active  int
	stopped bool
	pushed  int

	rtErr     types.Type
	rtErrOnce sync.Once

	ifShapes  map[*ssa.BasicBlock]*ifShape
	embeds    map[*ssa.Package]map[string]string
	pkgByPath map[string]*packages.Package

	pureMu    sync.Mutex
	pureCache map[*ssa.Function]bool
}

// Overlay maps virtual file paths (under /repo) to real files (under /verif).
type Overlay map[string]string

// BuildOverlay assembles the overlay: the spatial-reference stub (only while
// the repo's file is empty), the nd package, and all harness files.
func BuildOverlay(repo, verif string) (Overlay, error) {
	ov := Overlay{}
	srs := filepath.Join(repo, "sql/types/spatial_reference_systems.go")
	if st, err := os.Stat(srs); err == nil && st.Size() == 0 {
		ov[srs] = filepath.Join(verif, "overlay/srs_stub.go")
	}
	root := filepath.Join(verif, "harness")
	err := filepath.Walk(root, func(p string, info os.FileInfo, err error) error {
		if err != nil {
			return err
		}
		if info.IsDir() || !strings.HasSuffix(p, ".go") {
			return nil
		}
		rel, _ := filepath.Rel(root, p)
		ov[filepath.Join(repo, rel)] = p
		return nil
	})
	return ov, err
}

// WriteOverlayJSON writes the go build -overlay file.
func (ov Overlay) WriteJSON(path string) error {
	var sb strings.Builder
	sb.WriteString("{\"Replace\":{")
	first := true
	for k, v := range ov {
		if !first {
			sb.WriteByte(',')
		}
		first = false
		fmt.Fprintf(&sb, "%q:%q", k, v)
	}
	sb.WriteString("}}")
	return os.WriteFile(path, []byte(sb.String()), 0o644)
}

func Load(repo string, ov Overlay, patterns []string) (*World, error) {
	t0 := time.Now()
	overlay := map[string][]byte{}
	for virt, real := range ov {
		b, err := os.ReadFile(real)
		if err != nil {
			return nil, err
		}
		overlay[virt] = b
	}
	cfg := &packages.Config{
		Mode: packages.NeedName | packages.NeedFiles | packages.NeedCompiledGoFiles | packages.NeedImports |
			packages.NeedDeps | packages.NeedTypes | packages.NeedSyntax | packages.NeedTypesInfo | packages.NeedTypesSizes | packages.NeedModule,
		Dir:        repo,
		Overlay:    overlay,
		BuildFlags: []string{"-tags=verif,math_big_pure_go"}, // math_big_pure_go: math/big with its portable Go kernels instead of assembly (same results)
		Env:        append(os.Environ(), "GOFLAGS=-mod=mod", "GOPROXY=off", "GOSUMDB=off", "GOTOOLCHAIN=local", "CGO_ENABLED=1"),
	}
	pkgs, err := packages.Load(cfg, patterns...)
	if err != nil {
		return nil, err
	}
	var errs []string
	packages.Visit(pkgs, nil, func(p *packages.Package) {
		for _, e := range p.Errors {
			if len(errs) < 20 {
				errs = append(errs, e.Error())
			}
		}
	})
	if len(errs) > 0 {
		return nil, fmt.Errorf("package load errors:\n%s", strings.Join(errs, "\n"))
	}
	w := &World{Pkgs: pkgs, infos: map[*ssa.Function]*fnInfo{}, intrCache: map[*ssa.Function]Intrinsic{}, SSAPkgs: map[string]*ssa.Package{}, pureCache: map[*ssa.Function]bool{}}
	w.qcond = sync.NewCond(&w.qmu)
	w.LoadTime = time.Since(t0)
	t1 := time.Now()
	prog, _ := ssautil.AllPackages(pkgs, ssa.InstantiateGenerics|ssa.SanityCheckFunctions&0)
	prog.Build()
	w.Prog = prog
	for _, p := range prog.AllPackages() {
		w.SSAPkgs[p.Pkg.Path()] = p
	}
	w.SSATime = time.Since(t1)
	return w, nil
}

func (w *World) lookupFunc(pkg, name string) *ssa.Function {
	p := w.SSAPkgs[pkg]
	if p == nil {
		return nil
	}
	return p.Func(name)
}

func (w *World) runtimeErrorType() types.Type {
	w.rtErrOnce.Do(func() {
		if p := w.SSAPkgs["runtime"]; p != nil {
			if t := p.Type("errorString"); t != nil {
				w.rtErr = t.Type()
			}
		}
		if w.rtErr == nil {
			w.rtErr = types.Universe.Lookup("error").Type()
		}
	})
	return w.rtErr
}

// ---------- work-list ----------

type task struct {
	h      int
	prefix []int32
}

func (w *World) push(h int, prefix []int32) {
	w.qmu.Lock()
	if !w.dead[h] {
		w.queue = append(w.queue, task{h, prefix})
		w.pushed++
	}
	w.qmu.Unlock()
	w.qcond.Signal()
}

// pop blocks until a task is available or all workers are idle. A worker
// prefers tasks of the harness it is already working on (prefer >= 0): a
// machine changes harness only when that harness has no pending path, and it
// then starts a fresh solver process — paths of different harnesses never
// share solver state.
func (w *World) pop(prefer int) (task, bool) {
	w.qmu.Lock()
	defer w.qmu.Unlock()
	for {
		if w.stopped {
			return task{}, false
		}
		// drop dead tasks from the top
		for n := len(w.queue); n > 0 && w.dead[w.queue[n-1].h]; n = len(w.queue) {
			w.queue = w.queue[:n-1]
		}
		if n := len(w.queue); n > 0 {
			pick := n - 1 // depth-first: most recent first
			if prefer >= 0 && w.queue[pick].h != prefer {
				for i := n - 1; i >= 0; i-- {
					if w.queue[i].h == prefer && !w.dead[prefer] {
						pick = i
						break
					}
				}
			}
			t := w.queue[pick]
			w.queue = append(w.queue[:pick], w.queue[pick+1:]...)
			if w.dead[t.h] {
				continue
			}
			w.active++
			return t, true
		}
		if w.active == 0 {
			w.qcond.Broadcast()
			return task{}, false
		}
		w.qcond.Wait()
	}
}

func (w *World) done() {
	w.qmu.Lock()
	w.active--
	if w.active == 0 && len(w.queue) == 0 {
		w.qcond.Broadcast()
	}
	w.qmu.Unlock()
}

// kill drops all pending and future tasks of harness h (budget exhausted).
func (w *World) kill(h int) {
	w.qmu.Lock()
	w.dead[h] = true
	w.qmu.Unlock()
	w.qcond.Broadcast()
}

func (w *World) resetQueue() {
	w.qmu.Lock()
	w.queue = nil
	w.active = 0
	w.stopped = false
	w.pushed = 0
	w.dead = map[int]bool{}
	w.qmu.Unlock()
}

// ---------- policy: which code is interpreted ----------

var initStd = map[string]bool{
	"unicode": true, "unicode/utf8": true, "unicode/utf16": true, "strconv": true, "math": true, "math/bits": true,
	"sort": true, "slices": true, "container/heap": true, "bytes": true, "strings": true, "encoding/binary": true,
	"encoding/hex": true, "encoding/base64": true, "errors": true, "cmp": true, "maps": true, "io": true,
	"gopkg.in/src-d/go-errors.v1": true, "container/list": true, "hash/crc32": false,
	"internal/strconv": true, "internal/stringslite": true, "internal/byteorder": true, "internal/itoa": true,
	"github.com/cockroachdb/apd/v3": true, "context": true, "net/netip": true, "go.opentelemetry.io/otel/trace": true, "bufio": true, "regexp": true, "regexp/syntax": true, "time": true, "math/big": true,
}

// EnableBig: interpret math/big (portable kernels) and everything built on it. Off by default because apd's
// package initialiser then builds its power-of-ten tables in the interpreter (about 20 s per machine pool);
// a property asks for it with "math_big": true in its config.
var EnableBig bool

// EnableParser: run the package initialisers of the vitess SQL parser (its generated tables), so that harnesses
// can hand SQL text to the engine. Off by default (start-up cost); a property asks for it with "sql_parser": true.
var EnableParser bool

func (w *World) wantInit(p *ssa.Package) bool {
	if p == nil {
		return false
	}
	path := p.Pkg.Path()
	if path == "math/big" && !EnableBig {
		return false
	}
	if strings.HasPrefix(path, ModulePath) {
		return true
	}
	if EnableParser && strings.HasPrefix(path, "github.com/dolthub/vitess/go/") {
		return true
	}
	return initStd[path]
}

var denyPrefixes = []string{
	"os", "net", "syscall", "runtime", "reflect", "fmt", "log", "sync", "os/",
	"internal/reflectlite", "internal/poll", "internal/syscall", "internal/runtime", "internal/testlog", "internal/bisect", "internal/oserror",
	"github.com/sirupsen/logrus", "go.opentelemetry.io/", "io/ioutil", "io/fs", "net/", "crypto/", "testing",
	"unsafe", "path/filepath", "math/rand", "encoding/json", "database/sql",
	"google.golang.org/", "runtime/",
}

func (w *World) allowed(fn *ssa.Function) bool {
	if allowFuncs[fn.String()] || strings.HasPrefix(fn.String(), "(net.IP).") {
		return true
	}
	if fn.Pkg == nil {
		// synthetic wrappers / instantiations: judge by origin or receiver package
		if o := fn.Origin(); o != nil && o.Pkg != nil {
			return w.allowedPath(o.Pkg.Pkg.Path())
		}
		if fn.Object() != nil && fn.Object().Pkg() != nil {
			return w.allowedPath(fn.Object().Pkg().Path())
		}
		return true
	}
	return w.allowedPath(fn.Pkg.Pkg.Path())
}

var allowFuncs = map[string]bool{"(*fmt.wrapError).Error": true, "(*fmt.wrapError).Unwrap": true,
	// pure address parsing/formatting of package net (no I/O): a thin layer over net/netip
	"net.ParseIP": true, "net.parseIP": true, "net.IPv4": true, "(net.IP).To4": true, "(net.IP).To16": true, "(net.IP).String": true,
	"(net.IP).Equal": true, "net.ubtoa": true, "net.hexString": true, "net.isZeros": true, "net.allFF": true,
	// time.Unix / (Time).Unix: pure arithmetic on the wall/ext fields (the location pointer is not followed)
	"time.Unix": true, "time.unixTime": true, "(time.Time).Unix": true, "(*time.Time).unixSec": true, "(*time.Time).sec": true,
	"(*sync.RWMutex).RLocker": true, "(*sync.rlocker).Lock": true, "(*sync.rlocker).Unlock": true,
	"(time.Time).UnixNano": true, "(*time.Time).nsec": true, "(time.Time).IsZero": true, "(time.Time).Equal": true,
}

func (w *World) allowedPath(path string) bool {
	if path == "math/big" && !EnableBig {
		return false
	}
	switch path {
	case "sync/atomic", "internal/stringslite", "internal/bytealg", "internal/byteorder", "internal/itoa", "internal/godebug",
		"internal/race", "internal/goarch", "internal/cpu", "internal/abi", "internal/unsafeheader", "net/netip",
		"go.opentelemetry.io/otel/trace", "go.opentelemetry.io/otel/trace/embedded", "go.opentelemetry.io/otel/trace/noop",
		"go.opentelemetry.io/otel/attribute", "go.opentelemetry.io/otel/codes", "go.opentelemetry.io/otel/internal/attribute":
		return true
	}
	for _, d := range denyPrefixes {
		if path == d || (strings.HasSuffix(d, "/") && strings.HasPrefix(path, d)) || strings.HasPrefix(path, d+"/") {
			return false
		}
	}
	return true
}

func (w *World) intrinsic(fn *ssa.Function) Intrinsic {
	w.intrMu.Lock()
	defer w.intrMu.Unlock()
	if in, ok := w.intrCache[fn]; ok {
		return in
	}
	name := fn.String()
	in := intrinsics[name]
	if in == nil {
		if o := fn.Origin(); o != nil {
			in = intrinsics[o.String()]
		}
	}
	w.intrCache[fn] = in
	return in
}

var intrinsics = map[string]Intrinsic{}

func register(name string, in Intrinsic) { intrinsics[name] = in }
