package sx

import (
	"fmt"
	"go/token"
	"sync"
)

// Cooperative scheduler for `go` statements.
//
// Every interpreted goroutine ("thread") runs on its own real goroutine, but
// only one of them runs at any time: control is handed over explicitly at
// SCHEDULING POINTS — mutex/RWMutex operations, sync/atomic operations,
// WaitGroup operations, thread start and thread exit. At a scheduling point
// with more than one runnable thread the choice is a nondeterministic Fork, so
// every interleaving at that granularity is a separate explored path and the
// schedule is part of the path's decision trace (re-execution replays it).
//
// This is sequentially consistent interleaving semantics at the granularity
// of Go's synchronisation operations. Data races on plain memory accesses and
// weak-memory effects are not explored. Preemptions (switching away from a
// thread that could continue) are bounded by Conf.MaxPreempt; switches forced
// by blocking or thread exit are not counted.

type thread struct {
	id        int
	resume    chan struct{}
	started   bool
	done      bool
	blockedOn any // *mutexState | *wgState | nil
	depth     int
}

type mutexState struct {
	writer  int // thread id + 1; 0 = free
	readers int
}

type wgState struct{ n int64 }

type sched struct {
	m        *Machine
	threads  []*thread
	cur      *thread
	fatal    any
	killed   bool
	alive    sync.WaitGroup
	mutexes  map[Ptr]*mutexState
	wgs      map[Ptr]*wgState
	preempts int
	switches []int // executed schedule (thread ids)
	choices  []int // thread id chosen at each scheduling decision (what the native replay follows)
}

type threadKill struct{}

// threadPanic is an uncaught Go panic in a non-main goroutine: it crashes the
// program and cannot be recovered by the main thread's deferred calls.
type threadPanic struct{ gp *GoPanic }

func (m *Machine) sched() *sched {
	if m.threads == nil {
		s := &sched{m: m, mutexes: map[Ptr]*mutexState{}, wgs: map[Ptr]*wgState{}}
		main := &thread{id: 0, resume: make(chan struct{}, 1), started: true}
		s.threads = []*thread{main}
		s.cur = main
		m.threads = s
	}
	return m.threads
}

func (s *sched) runnable() []*thread {
	// current thread first: decision 0 = "keep running"
	var out []*thread
	if !s.cur.done && s.cur.blockedOn == nil {
		out = append(out, s.cur)
	}
	for _, t := range s.threads {
		if t != s.cur && !t.done && t.blockedOn == nil {
			out = append(out, t)
		}
	}
	return out
}

// switchTo hands control to t and parks the calling thread until it is
// resumed (unless it is finished).
func (s *sched) switchTo(t *thread, park bool) {
	me := s.cur
	if t == me {
		return
	}
	m := s.m
	me.depth = m.depth
	s.cur = t
	s.switches = append(s.switches, t.id)
	t.resume <- struct{}{}
	if !park {
		return
	}
	<-me.resume
	m.depth = me.depth
	s.afterResume(me)
}

func (s *sched) afterResume(me *thread) {
	if s.killed {
		panic(threadKill{})
	}
	if s.fatal != nil && me.id == 0 {
		f := s.fatal
		s.fatal = nil
		panic(f)
	}
}

const maxThreads = 4

func (m *Machine) spawn(fr *frame, fn Value, args []Value) {
	if m.initing {
		m.unsupported("go statement during package initialisation")
	}
	s := m.sched()
	if len(s.threads) >= maxThreads {
		m.abort("budget", "more than %d goroutines", maxThreads)
	}
	t := &thread{id: len(s.threads), resume: make(chan struct{}, 1)}
	s.threads = append(s.threads, t)
	s.alive.Add(1)
	go func() {
		defer s.alive.Done()
		<-t.resume
		if s.killed {
			return
		}
		t.started = true
		defer func() {
			r := recover()
			if _, ok := r.(threadKill); ok {
				return
			}
			t.done = true
			if r != nil {
				if gp, ok := r.(*GoPanic); ok {
					r = threadPanic{gp}
				}
				if s.fatal == nil {
					s.fatal = r
				}
				main := s.threads[0]
				s.cur = main
				main.resume <- struct{}{}
				return
			}
			s.exitThread(t)
		}()
		m.depth = 0
		m.call(nil, token.NoPos, fn, args)
	}()
	// thread start is a scheduling point
	m.yield(fr, "go")
}

// exitThread picks the next thread after t finished (runs on t's goroutine).
func (s *sched) exitThread(t *thread) {
	m := s.m
	defer func() {
		// a path end raised while choosing (e.g. infeasible) must reach main
		if r := recover(); r != nil {
			if s.fatal == nil {
				s.fatal = r
			}
			main := s.threads[0]
			s.cur = main
			main.resume <- struct{}{}
		}
	}()
	s.wake(s) // joiners re-check
	rs := s.runnable()
	if len(rs) == 0 {
		if s.allDone() {
			return
		}
		s.fatal = pathEnd{"deadlock", s.describeBlocked()}
		main := s.threads[0]
		s.cur = main
		main.resume <- struct{}{}
		return
	}
	k := 0
	if len(rs) > 1 {
		k = m.schedFork(len(rs))
		s.choices = append(s.choices, rs[k].id)
	}
	s.switchTo(rs[k], false)
}

func (s *sched) allDone() bool {
	for _, t := range s.threads {
		if !t.done {
			return false
		}
	}
	return true
}

func (s *sched) describeBlocked() string {
	out := "all threads blocked:"
	for _, t := range s.threads {
		if !t.done {
			out += fmt.Sprintf(" t%d(%T)", t.id, t.blockedOn)
		}
	}
	return out
}

// yield is a scheduling point at which the current thread stays runnable.
func (m *Machine) yield(fr *frame, what string) {
	s := m.threads
	if s == nil || len(s.threads) <= 1 || m.scope != nil {
		return
	}
	rs := s.runnable()
	if len(rs) <= 1 {
		return
	}
	if s.preempts >= m.maxPreempt() {
		return
	}
	k := m.schedFork(len(rs))
	s.choices = append(s.choices, rs[k].id)
	if k != 0 {
		s.preempts++
		s.switchTo(rs[k], true)
	}
}

func (m *Machine) maxPreempt() int {
	if m.Conf.MaxPreempt > 0 {
		return m.Conf.MaxPreempt
	}
	return 3
}

// block parks the current thread until `on` is released; a deadlock ends the
// path with a counterexample.
func (m *Machine) block(fr *frame, on any) {
	s := m.sched()
	me := s.cur
	me.blockedOn = on
	rs := s.runnable()
	if len(rs) == 0 {
		me.blockedOn = nil
		m.deadlock(s)
	}
	k := 0
	if len(rs) > 1 {
		k = m.schedFork(len(rs))
		s.choices = append(s.choices, rs[k].id)
	}
	s.switchTo(rs[k], true)
}

// schedFork is a scheduling decision: a Fork while exploring, the fixed policy
// "first runnable" (current thread, else lowest id) in concrete mode.
func (m *Machine) schedFork(n int) int {
	if m.Conf.ConcreteSet {
		return 0
	}
	return m.Fork(n)
}

func (m *Machine) deadlock(s *sched) {
	desc := s.describeBlocked()
	if s.cur.id != 0 {
		panic(pathEnd{"deadlock", desc})
	}
	panic(pathEnd{"deadlock", desc})
}

func (s *sched) wake(on any) {
	for _, t := range s.threads {
		if t.blockedOn == on {
			t.blockedOn = nil
		}
	}
}

// waitAll joins every other thread: used when the harness function returns
// (so that failures in goroutines it started are observed) and by explicit
// joins. Finishing threads wake the joiner.
func (m *Machine) waitAll(fr *frame) {
	s := m.threads
	if s == nil {
		return
	}
	for s.pendingOthers() {
		m.block(fr, s)
	}
}

func (s *sched) pendingOthers() bool {
	for _, t := range s.threads {
		if t != s.cur && !t.done {
			return true
		}
	}
	return false
}

// mutexOp implements Lock/Unlock/RLock/RUnlock of sync.Mutex and sync.RWMutex.
func (m *Machine) mutexOp(fr *frame, name string, mu Value) Value {
	if m.initing {
		return nil
	}
	p, ok := mu.(Ptr)
	if !ok || p == nil {
		m.rtPanic(fr, "nil-dereference")
	}
	s := m.sched()
	st := s.mutexes[p]
	if st == nil {
		st = &mutexState{}
		s.mutexes[p] = st
	}
	me := s.cur.id + 1
	switch {
	case hasSuffix(name, ").Lock"):
		m.yield(fr, "Lock")
		for st.writer != 0 || st.readers > 0 {
			m.block(fr, st)
		}
		st.writer = me
	case hasSuffix(name, ").Unlock"):
		if st.writer == 0 {
			panic(&GoPanic{V: Iface{T: m.W.runtimeErrorType(), V: Str{S: "fatal error: sync: unlock of unlocked mutex"}}, Site: "unlock-of-unlocked-mutex@" + fnName(fr), RT: true})
		}
		st.writer = 0
		s.wake(st)
		m.yield(fr, "Unlock")
	case hasSuffix(name, ").RLock"):
		m.yield(fr, "RLock")
		for st.writer != 0 {
			m.block(fr, st)
		}
		st.readers++
	case hasSuffix(name, ").RUnlock"):
		if st.readers == 0 {
			panic(&GoPanic{V: Iface{T: m.W.runtimeErrorType(), V: Str{S: "fatal error: sync: RUnlock of unlocked RWMutex"}}, Site: "runlock-of-unlocked-rwmutex@" + fnName(fr), RT: true})
		}
		st.readers--
		s.wake(st)
		m.yield(fr, "RUnlock")
	case hasSuffix(name, ").TryLock"):
		m.yield(fr, "TryLock")
		if st.writer != 0 || st.readers > 0 {
			return m.F.False
		}
		st.writer = me
		return m.F.True
	}
	return nil
}

func hasSuffix(s, suf string) bool { return len(s) >= len(suf) && s[len(s)-len(suf):] == suf }

func fnName(fr *frame) string {
	if fr == nil {
		return "?"
	}
	return fr.fn.String()
}

// ---- sync.WaitGroup ----

func (m *Machine) wgOp(fr *frame, op string, wg Value, delta int64) {
	if m.initing {
		return
	}
	p, ok := wg.(Ptr)
	if !ok || p == nil {
		m.rtPanic(fr, "nil-dereference")
	}
	s := m.sched()
	st := s.wgs[p]
	if st == nil {
		st = &wgState{}
		s.wgs[p] = st
	}
	switch op {
	case "add":
		st.n += delta
		if st.n < 0 {
			panic(&GoPanic{V: Iface{T: m.W.runtimeErrorType(), V: Str{S: "sync: negative WaitGroup counter"}}, Site: "negative-waitgroup-counter@" + fnName(fr), RT: true})
		}
		if st.n == 0 {
			s.wake(st)
		}
		m.yield(fr, "WaitGroup.Add")
	case "wait":
		m.yield(fr, "WaitGroup.Wait")
		for st.n > 0 {
			m.block(fr, st)
		}
	}
}

// endThreads is called when a path ends: every parked goroutine is released
// with the kill flag set and unwinds without running interpreted code.
func (m *Machine) endThreads() {
	s := m.threads
	if s == nil {
		return
	}
	s.killed = true
	for _, t := range s.threads[1:] {
		if !t.done || !t.started {
			select {
			case t.resume <- struct{}{}:
			default:
			}
		}
	}
	s.alive.Wait()
	m.threads = nil
}
