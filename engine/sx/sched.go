package sx

// Cooperative scheduler for `go` statements. Context switches happen only at
// synchronisation intrinsics (mutex operations, atomics, thread exit).
// (Single-threaded fallback: a spawned function runs to completion at the
// point chosen by the scheduler.)

type sched struct {
	pending []pendingGo
}

type pendingGo struct {
	fn   Value
	args []Value
}

func (m *Machine) spawn(fr *frame, fn Value, args []Value) {
	m.unsupported("go statement (scheduler not enabled for this harness)")
}

func (m *Machine) yield(fr *frame, what string) {}

func (m *Machine) waitAll(fr *frame) {}

func (m *Machine) mutexOp(fr *frame, name string, mu Value) Value { return nil }
