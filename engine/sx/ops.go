package sx

import (
	"fmt"
	"go/token"
	"go/types"
	"math"
	"unicode/utf8"

	"golang.org/x/tools/go/ssa"
)

func (m *Machine) unop(fr *frame, in *ssa.UnOp, x Value) Value {
	switch in.Op {
	case token.MUL:
		v := m.load(fr, x)
		// *(*[N]byte)(unsafe.Pointer(&word)): the bytes of an integer in memory order (little endian, as on the
		// platforms the code is checked for)
		if t, ok := v.(T); ok {
			if at, ok := in.Type().Underlying().(*types.Array); ok {
				if eb, ok := at.Elem().Underlying().(*types.Basic); ok && (eb.Kind() == types.Uint8 || eb.Kind() == types.Int8) && int(at.Len())*8 == t.W {
					out := make(Array, at.Len())
					for i := range out {
						out[i] = m.F.Extract(t, 8*i+7, 8*i)
					}
					return out
				}
			}
		}
		return v
	case token.NOT:
		if t, ok := x.(T); ok {
			return m.F.Not(t)
		}
	case token.SUB:
		switch v := x.(type) {
		case T:
			return m.F.Neg(v)
		case float64:
			return -v
		case float32:
			return -v
		case complex128:
			return -v
		}
	case token.XOR:
		if t, ok := x.(T); ok {
			return m.F.BNot(t)
		}
	case token.ARROW:
		ch, _ := x.(*Chan)
		return m.chanRecv(fr, ch, in.CommaOk, in.X.Type().Underlying().(*types.Chan).Elem())
	}
	if p, ok := x.(Poison); ok {
		if m.initing {
			return p
		}
		m.unsupported("unary op on poison: %s", p.Why)
	}
	panic(fmt.Sprintf("unop %s on %T", in.Op, x))
}

func (m *Machine) binop(fr *frame, op token.Token, t types.Type, x, y Value) Value {
	if p, ok := x.(Poison); ok {
		if m.initing {
			return p
		}
		m.unsupported("binary op on poison: %s", p.Why)
	}
	if p, ok := y.(Poison); ok {
		if m.initing {
			return p
		}
		m.unsupported("binary op on poison: %s", p.Why)
	}
	switch op {
	case token.EQL:
		return m.equals(t, x, y)
	case token.NEQ:
		return m.F.Not(m.equals(t, x, y))
	}
	switch a := x.(type) {
	case T:
		b, ok := y.(T)
		if !ok {
			break
		}
		signed := isSigned(t)
		F := m.F
		switch op {
		case token.ADD:
			return F.Add(a, b)
		case token.SUB:
			return F.Sub(a, b)
		case token.MUL:
			return F.Mul(a, b)
		case token.QUO, token.REM:
			if !m.Decide(F.Not(F.Eq(b, F.Const(b.W, 0)))) {
				m.rtPanic(fr, "integer-divide-by-zero")
			}
			if op == token.QUO {
				if signed {
					return F.SDiv(a, b)
				}
				return F.UDiv(a, b)
			}
			if signed {
				return F.SRem(a, b)
			}
			return F.URem(a, b)
		case token.AND:
			if a.W == 0 {
				return F.And(a, b)
			}
			return F.BAnd(a, b)
		case token.OR:
			if a.W == 0 {
				return F.Or(a, b)
			}
			return F.BOr(a, b)
		case token.XOR:
			return F.BXor(a, b)
		case token.AND_NOT:
			return F.BAnd(a, F.BNot(b))
		case token.SHL, token.SHR:
			return m.shift(fr, op, signed, a, b)
		case token.LSS:
			if signed {
				return F.Slt(a, b)
			}
			return F.Ult(a, b)
		case token.LEQ:
			if signed {
				return F.Sle(a, b)
			}
			return F.Ule(a, b)
		case token.GTR:
			if signed {
				return F.Slt(b, a)
			}
			return F.Ult(b, a)
		case token.GEQ:
			if signed {
				return F.Sle(b, a)
			}
			return F.Ule(b, a)
		}
	case float64:
		b, ok := y.(float64)
		if !ok {
			break
		}
		switch op {
		case token.ADD:
			return a + b
		case token.SUB:
			return a - b
		case token.MUL:
			return a * b
		case token.QUO:
			return a / b
		case token.LSS:
			return m.F.Bool(a < b)
		case token.LEQ:
			return m.F.Bool(a <= b)
		case token.GTR:
			return m.F.Bool(a > b)
		case token.GEQ:
			return m.F.Bool(a >= b)
		}
	case float32:
		b, ok := y.(float32)
		if !ok {
			break
		}
		switch op {
		case token.ADD:
			return a + b
		case token.SUB:
			return a - b
		case token.MUL:
			return a * b
		case token.QUO:
			return a / b
		case token.LSS:
			return m.F.Bool(a < b)
		case token.LEQ:
			return m.F.Bool(a <= b)
		case token.GTR:
			return m.F.Bool(a > b)
		case token.GEQ:
			return m.F.Bool(a >= b)
		}
	case complex128:
		b, ok := y.(complex128)
		if !ok {
			break
		}
		switch op {
		case token.ADD:
			return a + b
		case token.SUB:
			return a - b
		case token.MUL:
			return a * b
		case token.QUO:
			return a / b
		}
	case Str:
		b, ok := y.(Str)
		if !ok {
			break
		}
		switch op {
		case token.ADD:
			if a.B == nil && b.B == nil {
				return Str{S: a.S + b.S}
			}
			return m.mkStr(append(append([]T(nil), m.strBytes(a)...), m.strBytes(b)...))
		case token.LSS:
			return m.strLess(a, b, false)
		case token.LEQ:
			return m.strLess(a, b, true)
		case token.GTR:
			return m.strLess(b, a, false)
		case token.GEQ:
			return m.strLess(b, a, true)
		}
	case FloatSym:
		m.unsupported("arithmetic on symbolic float")
	}
	if _, ok := y.(FloatSym); ok {
		m.unsupported("arithmetic on symbolic float")
	}
	panic(fmt.Sprintf("binop %s on %T, %T in %s", op, x, y, fr.fn))
}

// FloatSym is an opaque 64-bit float pattern (bit-equality only).
type FloatSym struct{ Bits T }

func (m *Machine) shift(fr *frame, op token.Token, signed bool, a, b T) Value {
	F := m.F
	// Go: shift count must be non-negative (panic otherwise when signed count)
	// — the count's signedness is not available here; counts in practice are
	// unsigned or small constants. Treat as unsigned.
	w := a.W
	var cnt T
	var big T = F.False
	switch {
	case b.W == w:
		cnt = b
	case b.W < w:
		cnt = F.Zext(b, w)
	default:
		big = F.Ule(F.Const(b.W, uint64(w)), b)
		cnt = F.Extract(b, w-1, 0)
	}
	var r, over T
	switch {
	case op == token.SHL:
		r = F.Shl(a, cnt)
		over = F.Const(w, 0)
	case signed:
		r = F.AShr(a, cnt)
		over = F.AShr(a, F.Const(w, uint64(w-1)))
	default:
		r = F.LShr(a, cnt)
		over = F.Const(w, 0)
	}
	return F.Ite(big, over, r)
}

func (m *Machine) strLess(a, b Str, orEq bool) T {
	if a.B == nil && b.B == nil {
		if orEq {
			return m.F.Bool(a.S <= b.S)
		}
		return m.F.Bool(a.S < b.S)
	}
	F := m.F
	na, nb := a.Len(), b.Len()
	n := na
	if nb < n {
		n = nb
	}
	// result when all compared bytes equal
	var res T
	if orEq {
		res = F.Bool(na <= nb)
	} else {
		res = F.Bool(na < nb)
	}
	for i := n - 1; i >= 0; i-- {
		x, y := m.strAt(a, i), m.strAt(b, i)
		res = F.Ite(F.Eq(x, y), res, F.Ult(x, y))
	}
	return res
}

func (m *Machine) strEq(a, b Str) T {
	if a.Len() != b.Len() {
		return m.F.False
	}
	if a.B == nil && b.B == nil {
		return m.F.Bool(a.S == b.S)
	}
	res := m.F.True
	for i := a.Len() - 1; i >= 0; i-- {
		res = m.F.And(m.F.Eq(m.strAt(a, i), m.strAt(b, i)), res)
	}
	return res
}

// equals is Go's == as a boolean term.
func (m *Machine) equals(t types.Type, x, y Value) T {
	F := m.F
	switch a := x.(type) {
	case T:
		if b, ok := y.(T); ok {
			return F.Eq(a, b)
		}
	case float64:
		if b, ok := y.(float64); ok {
			return F.Bool(a == b)
		}
	case float32:
		if b, ok := y.(float32); ok {
			return F.Bool(a == b)
		}
	case complex128:
		if b, ok := y.(complex128); ok {
			return F.Bool(a == b)
		}
	case FloatSym:
		m.unsupported("== on symbolic float")
	case Str:
		if b, ok := y.(Str); ok {
			return m.strEq(a, b)
		}
	case Ptr:
		switch b := y.(type) {
		case Ptr:
			return F.Bool(a == b)
		case SymPtr:
			if a == nil {
				return F.False
			}
		}
	case SymPtr:
		if b, ok := y.(Ptr); ok && b == nil {
			return F.False
		}
		m.unsupported("comparison of symbolic pointers")
	case *Map:
		if b, ok := y.(*Map); ok {
			return F.Bool(a == b)
		}
	case *Chan:
		if b, ok := y.(*Chan); ok {
			return F.Bool(a == b)
		}
	case Slice:
		if b, ok := y.(Slice); ok { // only comparison with nil is legal
			return F.Bool((a.V == nil) == (b.V == nil) && (a.V == nil || b.V == nil))
		}
	case *ssa.Function:
		switch b := y.(type) {
		case *ssa.Function:
			return F.Bool(a == b)
		case *Closure:
			return F.Bool(false)
		}
	case *Closure:
		switch b := y.(type) {
		case *ssa.Function:
			_ = b
			return F.Bool(false)
		case *Closure:
			return F.Bool(a == b)
		}
	case *ssa.Builtin:
		return F.False
	case Struct:
		if b, ok := y.(Struct); ok {
			st, _ := t.Underlying().(*types.Struct)
			res := F.True
			for i := len(a) - 1; i >= 0; i-- {
				var ft types.Type
				if st != nil {
					if st.Field(i).Name() == "_" {
						continue
					}
					ft = st.Field(i).Type()
				}
				res = F.And(m.equals(ft, a[i], b[i]), res)
			}
			return res
		}
	case Array:
		if b, ok := y.(Array); ok {
			var et types.Type
			if at, ok := t.Underlying().(*types.Array); ok {
				et = at.Elem()
			}
			res := F.True
			for i := len(a) - 1; i >= 0; i-- {
				res = F.And(m.equals(et, a[i], b[i]), res)
			}
			return res
		}
	case Iface:
		if b, ok := y.(Iface); ok {
			if a.T == nil || b.T == nil {
				return F.Bool(a.T == nil && b.T == nil)
			}
			if !types.Identical(a.T, b.T) {
				return F.False
			}
			if !types.Comparable(a.T) {
				panic(&GoPanic{V: Iface{T: m.W.runtimeErrorType(), V: Str{S: "runtime error: comparing uncomparable type " + typeStr(a.T)}}, Site: "uncomparable", RT: true})
			}
			return m.equals(a.T, a.V, b.V)
		}
	case *Opaque:
		if b, ok := y.(*Opaque); ok {
			return F.Bool(a == b)
		}
	case nil:
		return F.Bool(y == nil)
	}
	if t != nil {
		// x or y may be a typed nil of a different representation
		if xi, ok := x.(Iface); ok && xi.T == nil {
			if _, ok := y.(Iface); !ok {
				return F.False
			}
		}
	}
	panic(fmt.Sprintf("equals: %T vs %T (type %v)", x, y, t))
}

// ---------- conversions ----------

func (m *Machine) conv(fr *frame, dst, src types.Type, x Value) Value {
	if p, ok := x.(Poison); ok {
		if m.initing {
			return p
		}
		m.unsupported("conversion of poison: %s", p.Why)
	}
	ud, us := dst.Underlying(), src.Underlying()
	// type parameters (MultiConvert) resolved by instantiation; unalias
	switch us := us.(type) {
	case *types.Pointer:
		// *T -> unsafe.Pointer or *T -> *U
		return x
	case *types.Slice:
		switch d := ud.(type) {
		case *types.Basic: // []byte / []rune -> string
			if d.Info()&types.IsString == 0 {
				break
			}
			s := x.(Slice)
			eb := us.Elem().Underlying().(*types.Basic)
			if eb.Kind() == types.Uint8 {
				bs := make([]T, len(s.V))
				for i, e := range s.V {
					bs[i] = e.(T)
				}
				return m.mkStr(bs)
			}
			// []rune -> string
			var out []T
			for _, e := range s.V {
				out = append(out, m.encodeRune(fr, e.(T))...)
			}
			return m.mkStr(out)
		case *types.Slice:
			return x
		case *types.Array:
			s := x.(Slice)
			n := int(d.Len())
			if len(s.V) < n {
				m.rtPanic(fr, "slice-to-array")
			}
			return copyVal(Array(s.V[:n]))
		case *types.Pointer:
			s := x.(Slice)
			n := int(d.Elem().Underlying().(*types.Array).Len())
			if len(s.V) < n {
				m.rtPanic(fr, "slice-to-array-pointer")
			}
			p := new(Value)
			*p = Array(s.V[:n:n])
			return p
		}
	case *types.Basic:
		switch {
		case us.Kind() == types.UnsafePointer:
			if db, ok := ud.(*types.Basic); ok && db.Kind() == types.Uintptr {
				if p, ok := x.(Ptr); ok && p == nil {
					return m.F.Const(64, 0)
				}
				return &Opaque{Tag: "uintptr-of-pointer", Data: x}
			}
			return x
		case us.Info()&types.IsString != 0:
			s := x.(Str)
			switch d := ud.(type) {
			case *types.Slice:
				eb := d.Elem().Underlying().(*types.Basic)
				if eb.Kind() == types.Uint8 {
					bs := m.strBytes(s)
					out := make([]Value, len(bs))
					for i, b := range bs {
						out[i] = b
					}
					return Slice{V: out}
				}
				// string -> []rune
				out := []Value{}
				for pos := 0; pos < s.Len(); {
					r, size := m.decodeRune(fr, s, pos)
					out = append(out, r)
					pos += size
				}
				return Slice{V: out}
			case *types.Basic:
				if d.Info()&types.IsString != 0 {
					return x
				}
			}
		case us.Info()&types.IsInteger != 0:
			switch d := ud.(type) {
			case *types.Basic:
				switch {
				case d.Info()&types.IsInteger != 0:
					switch v := x.(type) {
					case T:
						dw := m.width(d)
						if us.Info()&types.IsUnsigned != 0 {
							return m.F.Zext(v, dw)
						}
						return m.F.Sext(v, dw)
					case *Opaque:
						return v
					}
				case d.Info()&types.IsFloat != 0:
					t := x.(T)
					if !t.IsConst() {
						m.unsupported("int→float conversion of symbolic value in %s", fr.fn)
					}
					var f float64
					if us.Info()&types.IsUnsigned != 0 {
						f = float64(t.Val)
					} else {
						f = float64(t.SignedVal())
					}
					if d.Kind() == types.Float32 {
						return float32(f)
					}
					return f
				case d.Info()&types.IsString != 0:
					t := x.(T)
					return m.mkStr(m.encodeRune(fr, m.toRune(t, us)))
				case d.Kind() == types.UnsafePointer:
					if t, ok := x.(T); ok && t.IsConst() && t.Val == 0 {
						return Ptr(nil)
					}
					if o, ok := x.(*Opaque); ok && o.Tag == "uintptr-of-pointer" {
						return o.Data
					}
					m.unsupported("uintptr→unsafe.Pointer")
				case d.Info()&types.IsComplex != 0:
					m.unsupported("int→complex")
				}
			}
		case us.Info()&types.IsFloat != 0:
			var f float64
			switch v := x.(type) {
			case float64:
				f = v
			case float32:
				f = float64(v)
			case FloatSym:
				if db, ok := ud.(*types.Basic); ok && db.Kind() == us.Kind() {
					return x
				}
				m.unsupported("conversion of symbolic float")
			}
			if d, ok := ud.(*types.Basic); ok {
				switch {
				case d.Kind() == types.Float64:
					return f
				case d.Kind() == types.Float32:
					return float32(f)
				case d.Info()&types.IsInteger != 0:
					w := m.width(d)
					if d.Info()&types.IsUnsigned != 0 {
						return m.F.Const(w, floatToUint(f))
					}
					return m.F.Const(w, uint64(floatToInt(f)))
				}
			}
		case us.Info()&types.IsBoolean != 0:
			return x
		case us.Info()&types.IsComplex != 0:
			return x
		}
	case *types.Struct, *types.Array, *types.Map, *types.Chan, *types.Signature, *types.Interface:
		return x
	}
	panic(fmt.Sprintf("conv %v -> %v of %T in %s", src, dst, x, fr.fn))
}

func floatToInt(f float64) int64 {
	if f != f {
		return math.MinInt64
	}
	if f >= 9.223372036854775807e18 {
		return math.MinInt64 // amd64 behaviour
	}
	if f <= -9.223372036854775808e18 {
		return math.MinInt64
	}
	return int64(f)
}

func floatToUint(f float64) uint64 {
	if f != f || f < 0 {
		if f > -9.3e18 {
			return uint64(int64(f))
		}
		return 1 << 63
	}
	if f >= 1.8446744073709552e19 {
		return 1 << 63
	}
	return uint64(f)
}

// toRune normalises an integer term to a 32-bit rune term; values that do
// not fit become U+FFFD as in the Go spec.
func (m *Machine) toRune(t T, src *types.Basic) T {
	F := m.F
	if t.W == 32 {
		return t
	}
	if t.W < 32 {
		if src.Info()&types.IsUnsigned != 0 {
			return F.Zext(t, 32)
		}
		return F.Sext(t, 32)
	}
	low := F.Extract(t, 31, 0)
	var fits T
	if src.Info()&types.IsUnsigned != 0 {
		fits = F.Eq(F.Zext(low, t.W), t)
		fits = F.And(fits, F.Sle(F.Const(32, 0), low))
	} else {
		fits = F.Eq(F.Sext(low, t.W), t)
	}
	return F.Ite(fits, low, F.Const(32, 0xFFFD))
}

// encodeRune returns the UTF-8 bytes of r, forking on the length class for a
// symbolic rune (through the real utf8.AppendRune).
func (m *Machine) encodeRune(fr *frame, r T) []T {
	if r.IsConst() {
		var buf [4]byte
		n := utf8.EncodeRune(buf[:], rune(int32(r.Val)))
		out := make([]T, n)
		for i := 0; i < n; i++ {
			out[i] = m.F.Const(8, uint64(buf[i]))
		}
		return out
	}
	fn := m.W.lookupFunc("unicode/utf8", "AppendRune")
	if fn == nil {
		m.unsupported("utf8.AppendRune not loaded")
	}
	res := m.callFunction(fr, token.NoPos, fn, []Value{Slice{}, r}).(Slice)
	out := make([]T, len(res.V))
	for i, e := range res.V {
		out[i] = e.(T)
	}
	return out
}

// decodeRune decodes one rune at pos (through the real
// utf8.DecodeRuneInString when bytes are symbolic).
func (m *Machine) decodeRune(fr *frame, s Str, pos int) (T, int) {
	n := s.Len()
	end := pos + 4
	if end > n {
		end = n
	}
	conc := true
	var buf [4]byte
	for i := pos; i < end; i++ {
		b := m.strAt(s, i)
		if !b.IsConst() {
			conc = false
			break
		}
		buf[i-pos] = byte(b.Val)
	}
	if conc {
		r, size := utf8.DecodeRune(buf[:end-pos])
		return m.F.Const(32, uint64(uint32(r))), size
	}
	fn := m.W.lookupFunc("unicode/utf8", "DecodeRuneInString")
	if fn == nil {
		m.unsupported("utf8.DecodeRuneInString not loaded")
	}
	var sub Str
	if s.B != nil {
		sub = Str{B: s.B[pos:end:end]}
	} else {
		sub = Str{S: s.S[pos:end]}
	}
	res := m.callFunction(fr, token.NoPos, fn, []Value{sub}).(Tuple)
	size := m.concreteInt(fr, res[1], "rune-size")
	return res[0].(T), size
}

// ---------- type assertions ----------

func (m *Machine) implements(dyn types.Type, it *types.Interface) bool {
	meth, _ := types.MissingMethod(dyn, it, true)
	return meth == nil
}

func (m *Machine) typeAssert(fr *frame, in *ssa.TypeAssert, x Value) Value {
	iv, ok := x.(Iface)
	if !ok {
		if p, isP := x.(Poison); isP {
			m.unsupported("type assertion on poison: %s", p.Why)
		}
		panic(fmt.Sprintf("TypeAssert on %T", x))
	}
	var v Value
	good := false
	if it, isIface := in.AssertedType.Underlying().(*types.Interface); isIface {
		if iv.T != nil && m.implements(iv.T, it) {
			v = iv
			good = true
		}
	} else {
		if iv.T != nil && types.Identical(iv.T, in.AssertedType) {
			v = iv.V
			good = true
		}
	}
	if good {
		if in.CommaOk {
			return Tuple{v, m.F.True}
		}
		return v
	}
	if in.CommaOk {
		return Tuple{m.zero(in.AssertedType), m.F.False}
	}
	panic(&GoPanic{V: Iface{T: m.W.runtimeErrorType(), V: Str{S: "interface conversion: " + typeStr(iv.T) + " is not " + typeStr(in.AssertedType)}}, Site: "type-assertion@" + fr.fn.String(), RT: true})
}

// ---------- builtins ----------

func (m *Machine) callBuiltin(fr *frame, fn *ssa.Builtin, args []Value) Value {
	F := m.F
	switch fn.Name() {
	case "append":
		if len(args) == 1 {
			return args[0]
		}
		var add []Value
		switch b := args[1].(type) {
		case Str:
			for _, t := range m.strBytes(b) {
				add = append(add, t)
			}
		case Slice:
			add = b.V
		default:
			panic(fmt.Sprintf("append of %T", args[1]))
		}
		a := args[0].(Slice)
		if len(add) == 0 {
			return a
		}
		n := len(a.V)
		if n+len(add) <= cap(a.V) {
			out := a.V[:n+len(add)]
			for i, e := range add {
				m.storeAt(&out[n+i], copyVal(e))
			}
			return Slice{V: out}
		}
		nc := 2 * cap(a.V)
		if nc < n+len(add) {
			nc = n + len(add)
		}
		if nc < 4 {
			nc = n + len(add)
		}
		out := make([]Value, n+len(add), nc)
		for i := 0; i < n; i++ {
			out[i] = copyVal(a.V[i])
		}
		for i, e := range add {
			out[n+i] = copyVal(e)
		}
		// spare capacity holds zero values of the element type
		if nc > n+len(add) {
			et := fn.Type().(*types.Signature).Params().At(0).Type().Underlying().(*types.Slice).Elem()
			full := out[:nc]
			for i := n + len(add); i < nc; i++ {
				full[i] = m.zero(et)
			}
		}
		return Slice{V: out}
	case "copy":
		dst := args[0].(Slice)
		var src []Value
		switch b := args[1].(type) {
		case Str:
			for _, t := range m.strBytes(b) {
				src = append(src, t)
			}
		case Slice:
			src = b.V
		}
		n := len(dst.V)
		if len(src) < n {
			n = len(src)
		}
		// handle overlap like memmove
		tmp := make([]Value, n)
		for i := 0; i < n; i++ {
			tmp[i] = copyVal(src[i])
		}
		for i := 0; i < n; i++ {
			m.storeAt(&dst.V[i], tmp[i])
		}
		return F.Const(64, uint64(n))
	case "len":
		switch x := args[0].(type) {
		case Str:
			return F.Const(64, uint64(x.Len()))
		case Slice:
			return F.Const(64, uint64(len(x.V)))
		case Array:
			return F.Const(64, uint64(len(x)))
		case Ptr:
			return F.Const(64, uint64(len((*x).(Array))))
		case *Map:
			return F.Const(64, uint64(x.Len()))
		case *Chan:
			if x == nil {
				return F.Const(64, 0)
			}
			return F.Const(64, uint64(len(x.buf)))
		case Poison:
			m.unsupported("len of poison: %s", x.Why)
		}
	case "cap":
		switch x := args[0].(type) {
		case Slice:
			return F.Const(64, uint64(cap(x.V)))
		case Array:
			return F.Const(64, uint64(len(x)))
		case Ptr:
			return F.Const(64, uint64(len((*x).(Array))))
		case *Chan:
			return F.Const(64, 0)
		}
	case "delete":
		mp := args[0].(*Map)
		if mp != nil {
			m.mapDelete(fr, mp, args[1])
		}
		return nil
	case "clear":
		switch x := args[0].(type) {
		case *Map:
			m.mapClear(x)
		case Slice:
			et := fn.Type().(*types.Signature).Params().At(0).Type().Underlying().(*types.Slice).Elem()
			for i := range x.V {
				m.storeAt(&x.V[i], m.zero(et))
			}
		}
		return nil
	case "min", "max":
		sig := fn.Type().(*types.Signature)
		t := sig.Params().At(0).Type()
		res := args[0]
		for _, a := range args[1:] {
			switch r := res.(type) {
			case T:
				b := a.(T)
				var lt T
				if isSigned(t) {
					lt = F.Slt(b, r)
				} else {
					lt = F.Ult(b, r)
				}
				if fn.Name() == "max" {
					lt = F.Not(F.Or(lt, F.Eq(b, r)))
					if isSigned(t) {
						lt = F.Slt(r, b)
					} else {
						lt = F.Ult(r, b)
					}
				}
				res = F.Ite(lt, b, r)
			case float64:
				b := a.(float64)
				if fn.Name() == "min" {
					res = math.Min(r, b)
				} else {
					res = math.Max(r, b)
				}
			case Str:
				b := a.(Str)
				var lt T
				if fn.Name() == "min" {
					lt = m.strLess(b, r, false)
				} else {
					lt = m.strLess(r, b, false)
				}
				if m.Decide(lt) {
					res = b
				}
			default:
				m.unsupported("min/max on %T", res)
			}
		}
		return res
	case "print", "println":
		return nil
	case "panic":
		panic(&GoPanic{V: m.panicValue(args[0]), Site: "panic@" + fr.fn.String()})
	case "recover":
		return m.doRecover(fr)
	case "close":
		ch, _ := args[0].(*Chan)
		m.chanClose(fr, ch)
		return nil
	case "real", "imag", "complex", "SliceData", "StringData", "String", "Slice", "Add":
		m.unsupported("builtin %s in %s", fn.Name(), fr.fn.String())
	case "ssa:wrapnilchk":
		recv := args[0]
		if p, ok := recv.(Ptr); ok && p == nil {
			m.rtPanic(fr, "nil-dereference")
		}
		return recv
	}
	panic(fmt.Sprintf("builtin %s on %T", fn.Name(), args))
}
