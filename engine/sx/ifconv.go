package sx

import (
	"go/token"
	"go/types"
	"os"

	"golang.org/x/tools/go/ssa"
)

// If-conversion. A branch on a symbolic condition whose arms are
// side-effect-free, total straight-line blocks that meet again in a common
// join block ("triangle" / "diamond", which is also what go/ssa produces for
// && and ||) is executed WITHOUT forking: both arms are evaluated and the
// join's phi nodes become ite-terms. Only instructions that can neither
// panic, nor fork, nor write memory are speculated (integer/boolean
// arithmetic without division, integer conversions, tuple/struct field
// extraction, loads through non-nil concrete pointers). Anything else falls
// back to ordinary forking, so the transformation never changes semantics.

var dbgNoRet = os.Getenv("VERIF_NORET") != ""
var dbgNoTri = os.Getenv("VERIF_NOTRI") != ""

type ifShape struct {
	ok    bool
	arms  [2]*ssa.BasicBlock // nil = edge goes straight to the join
	join  *ssa.BasicBlock
	preds [2]*ssa.BasicBlock // predecessor of join on the true / false side
	ret   bool               // both arms end in Return: the results are merged
}

func (w *World) ifShapeOf(b *ssa.BasicBlock) *ifShape {
	w.infoMu.Lock()
	defer w.infoMu.Unlock()
	if w.ifShapes == nil {
		w.ifShapes = map[*ssa.BasicBlock]*ifShape{}
	}
	if s, ok := w.ifShapes[b]; ok {
		return s
	}
	s := &ifShape{}
	w.ifShapes[b] = s
	t, e := b.Succs[0], b.Succs[1]
	if t == e {
		return s
	}
	retArm := func(x *ssa.BasicBlock) bool {
		if len(x.Preds) != 1 || len(x.Succs) != 0 || x.Index <= b.Index || len(x.Instrs) > 24 {
			return false
		}
		for _, in := range x.Instrs[:len(x.Instrs)-1] {
			if !staticallySpeculable(in) {
				return false
			}
		}
		_, ok := x.Instrs[len(x.Instrs)-1].(*ssa.Return)
		return ok
	}
	if retArm(t) && retArm(e) {
		s.arms = [2]*ssa.BasicBlock{t, e}
		s.ret = true
		s.ok = true
		return s
	}
	simpleArm := func(x *ssa.BasicBlock) (*ssa.BasicBlock, bool) {
		if len(x.Preds) != 1 || len(x.Succs) != 1 || x.Index <= b.Index {
			return nil, false
		}
		if len(x.Instrs) > 24 {
			return nil, false
		}
		for _, in := range x.Instrs[:len(x.Instrs)-1] {
			if !staticallySpeculable(in) {
				return nil, false
			}
		}
		if _, ok := x.Instrs[len(x.Instrs)-1].(*ssa.Jump); !ok {
			return nil, false
		}
		return x.Succs[0], true
	}
	tj, tok := simpleArm(t)
	ej, eok := simpleArm(e)
	switch {
	case tok && eok && tj == ej: // diamond
		s.arms = [2]*ssa.BasicBlock{t, e}
		s.join = tj
		s.preds = [2]*ssa.BasicBlock{t, e}
	case tok && tj == e: // triangle, true arm
		s.arms = [2]*ssa.BasicBlock{t, nil}
		s.join = e
		s.preds = [2]*ssa.BasicBlock{t, b}
	case eok && ej == t: // triangle, false arm
		s.arms = [2]*ssa.BasicBlock{nil, e}
		s.join = t
		s.preds = [2]*ssa.BasicBlock{b, e}
	default:
		return s
	}
	if s.join.Index <= b.Index {
		return s // back edge: keep loop accounting simple
	}
	// the join must distinguish the two sides only through phis
	n := 0
	for _, p := range s.join.Preds {
		if p == s.preds[0] || p == s.preds[1] {
			n++
		}
	}
	if n != 2 {
		return s
	}
	s.ok = true
	return s
}

func isIntOrBool(t types.Type) bool {
	b, ok := t.Underlying().(*types.Basic)
	return ok && b.Info()&(types.IsInteger|types.IsBoolean) != 0
}

func staticallySpeculable(in ssa.Instruction) bool {
	switch in := in.(type) {
	case *ssa.DebugRef:
		return true
	case *ssa.BinOp:
		switch in.Op {
		case token.QUO, token.REM:
			return false
		case token.SHL, token.SHR:
			return !isSigned(in.Y.Type()) && isIntOrBool(in.X.Type())
		}
		return isIntOrBool(in.X.Type()) && isIntOrBool(in.Y.Type())
	case *ssa.UnOp:
		switch in.Op {
		case token.NOT, token.SUB, token.XOR:
			return isIntOrBool(in.X.Type())
		case token.MUL:
			return true // checked dynamically: non-nil concrete pointer
		}
		return false
	case *ssa.Convert:
		return isIntOrBool(in.X.Type()) && isIntOrBool(in.Type())
	case *ssa.ChangeType, *ssa.Extract, *ssa.Field, *ssa.MakeInterface, *ssa.ChangeInterface:
		return true
	case *ssa.FieldAddr:
		return true // checked dynamically
	}
	return false
}

// speculate executes the arm's instructions; false when a dynamic check fails.
func (m *Machine) speculate(fr *frame, arm *ssa.BasicBlock) bool {
	for _, in := range arm.Instrs[:len(arm.Instrs)-1] {
		switch in := in.(type) {
		case *ssa.UnOp:
			if in.Op == token.MUL {
				p, ok := fr.get(in.X).(Ptr)
				if !ok || p == nil {
					return false
				}
				if _, bad := (*p).(Poison); bad {
					return false
				}
			} else if _, ok := fr.get(in.X).(T); !ok {
				return false
			}
		case *ssa.BinOp:
			if _, ok := fr.get(in.X).(T); !ok {
				return false
			}
			if _, ok := fr.get(in.Y).(T); !ok {
				return false
			}
		case *ssa.Convert:
			if _, ok := fr.get(in.X).(T); !ok {
				return false
			}
		case *ssa.FieldAddr:
			p, ok := fr.get(in.X).(Ptr)
			if !ok || p == nil {
				return false
			}
			if _, ok := (*p).(Struct); !ok {
				return false
			}
		case *ssa.Field:
			if _, ok := fr.get(in.X).(Struct); !ok {
				return false
			}
		case *ssa.Extract:
			if _, ok := fr.get(in.Tuple).(Tuple); !ok {
				return false
			}
		}
		m.steps++
		m.visit(fr, in)
	}
	return true
}

// tryIfConvert returns handled=true when the branch was executed without
// forking; finished=true when that also completed the function (merged returns).
func (m *Machine) tryIfConvert(fr *frame, c T) (handled, finished bool) {
	sh := m.W.ifShapeOf(fr.block)
	if !sh.ok {
		return false, false
	}
	if dbgNoRet && sh.ret || dbgNoTri && !sh.ret {
		return false, false
	}
	for _, arm := range sh.arms {
		if arm != nil && !m.speculate(fr, arm) {
			return false, false
		}
	}
	if sh.ret {
		var rs [2]Value
		for k, arm := range sh.arms {
			ret := arm.Instrs[len(arm.Instrs)-1].(*ssa.Return)
			switch len(ret.Results) {
			case 0:
			case 1:
				rs[k] = fr.get(ret.Results[0])
			default:
				t := make(Tuple, len(ret.Results))
				for i, r := range ret.Results {
					t[i] = fr.get(r)
				}
				rs[k] = t
			}
		}
		v, ok := m.ite(c, rs[0], rs[1])
		if !ok {
			return false, false
		}
		m.Stats.IfConverted++
		fr.result = v
		fr.block = nil
		return true, true
	}
	// merge the join's phis
	var phis []*ssa.Phi
	for _, in := range sh.join.Instrs {
		phi, ok := in.(*ssa.Phi)
		if !ok {
			break
		}
		phis = append(phis, phi)
	}
	ti, ei := -1, -1
	for i, p := range sh.join.Preds {
		if p == sh.preds[0] && ti < 0 {
			ti = i
		} else if p == sh.preds[1] {
			ei = i
		}
	}
	if ti < 0 || ei < 0 {
		return false, false
	}
	vals := make([]Value, len(phis))
	for i, phi := range phis {
		v, ok := m.ite(c, fr.get(phi.Edges[ti]), fr.get(phi.Edges[ei]))
		if !ok {
			return false, false
		}
		vals[i] = v
	}
	for i, phi := range phis {
		fr.setv(phi, vals[i])
	}
	m.Stats.IfConverted++
	fr.prev, fr.block = sh.preds[0], sh.join
	fr.skipPhis = len(phis) > 0
	return true, false
}
