package sx

import (
	"go/token"
	"go/types"
	"strconv"

	"golang.org/x/tools/go/ssa"
)

// Init-time stubs for values of foreign types. They are opaque handles: they
// can be stored and passed around; any inspection aborts the path (or, during
// init, poisons the dependent value).
func init() {
	// reflect.TypeOf(x): a reflect.Type interface value that is nil exactly when
	// x is the nil interface; otherwise an opaque handle carrying x's dynamic type
	// (identity comparison and == nil are the only supported uses).
	typeOf := func(m *Machine, fr *frame, fn *ssa.Function, args []Value) Value {
		iv, _ := args[0].(Iface)
		if iv.T == nil {
			return Iface{}
		}
		return Iface{T: reflectTypeCarrier, V: m.typeHandle(iv.T)}
	}
	register("reflect.TypeOf", typeOf)
	register("internal/reflectlite.TypeOf", typeOf)
	register("time.LoadLocation", func(m *Machine, fr *frame, fn *ssa.Function, args []Value) Value {
		return Tuple{&Opaque{Tag: "*time.Location"}, Iface{}}
	})
	register("os.Getenv", func(m *Machine, fr *frame, fn *ssa.Function, args []Value) Value {
		return Str{} // stub contract: the environment is empty
	})
	register("os.LookupEnv", func(m *Machine, fr *frame, fn *ssa.Function, args []Value) Value {
		return Tuple{Str{}, m.F.False}
	})
}

func init() {
	register("github.com/cockroachdb/apd/v3.noescape", func(m *Machine, fr *frame, fn *ssa.Function, args []Value) Value { return args[0] })
}

// Pure stdlib functions without a usable Go body for the executor (float
// formatting/parsing uses float arithmetic on bit patterns): executed natively
// when every argument is concrete; a symbolic argument is unsupported.
func init() {
	concStr := func(m *Machine, v Value, what string) string {
		s, ok := v.(Str)
		if !ok {
			m.unsupported("%s: non-string argument", what)
		}
		c, ok := s.Concrete()
		if !ok {
			m.unsupported("%s on a symbolic string", what)
		}
		return c
	}
	concInt := func(m *Machine, v Value, what string) int64 {
		t, ok := v.(T)
		if !ok || !t.IsConst() {
			m.unsupported("%s with a symbolic integer argument", what)
		}
		return t.SignedVal()
	}
	concFloat := func(m *Machine, v Value, what string) float64 {
		switch f := v.(type) {
		case float64:
			return f
		case float32:
			return float64(f)
		}
		m.unsupported("%s on a symbolic float", what)
		return 0
	}
	register("strconv.FormatFloat", func(m *Machine, fr *frame, fn *ssa.Function, args []Value) Value {
		f := concFloat(m, args[0], "strconv.FormatFloat")
		return Str{S: strconv.FormatFloat(f, byte(concInt(m, args[1], "FormatFloat fmt")), int(concInt(m, args[2], "FormatFloat prec")), int(concInt(m, args[3], "FormatFloat bitSize")))}
	})
	register("strconv.AppendFloat", func(m *Machine, fr *frame, fn *ssa.Function, args []Value) Value {
		f := concFloat(m, args[1], "strconv.AppendFloat")
		txt := strconv.FormatFloat(f, byte(concInt(m, args[2], "AppendFloat fmt")), int(concInt(m, args[3], "AppendFloat prec")), int(concInt(m, args[4], "AppendFloat bitSize")))
		dst := args[0].(Slice)
		out := make([]Value, 0, len(dst.V)+len(txt))
		out = append(out, dst.V...)
		for i := 0; i < len(txt); i++ {
			out = append(out, m.F.Const(8, uint64(txt[i])))
		}
		return Slice{V: out}
	})
	register("strconv.ParseFloat", func(m *Machine, fr *frame, fn *ssa.Function, args []Value) Value {
		s := concStr(m, args[0], "strconv.ParseFloat")
		bits := int(concInt(m, args[1], "ParseFloat bitSize"))
		f, err := strconv.ParseFloat(s, bits)
		if err != nil {
			// build a *strconv.NumError through the interpreted constructors
			var ctor string
			if ne, ok := err.(*strconv.NumError); ok && ne.Err == strconv.ErrRange {
				ctor = "rangeError"
			} else {
				ctor = "syntaxError"
			}
			if cf := m.W.lookupFunc("strconv", ctor); cf != nil {
				e := m.callFunction(fr, token.NoPos, cf, []Value{Str{S: "ParseFloat"}, Str{S: s}})
				et := types.Universe.Lookup("error").Type()
				_ = et
				return Tuple{f, Iface{T: cf.Signature.Results().At(0).Type(), V: e}}
			}
			m.unsupported("strconv.ParseFloat error construction")
		}
		return Tuple{f, Iface{}}
	})
	register("runtime/trace.StartRegion", func(m *Machine, fr *frame, fn *ssa.Function, args []Value) Value {
		p := new(Value)
		*p = m.zero(deref(fn.Signature.Results().At(0).Type()))
		return Ptr(p)
	})
	register("(*runtime/trace.Region).End", nop)
	register("runtime/trace.IsEnabled", func(m *Machine, fr *frame, fn *ssa.Function, args []Value) Value { return m.F.False })
}

// reflectTypeCarrier is the (fictitious) dynamic type of non-nil reflect.Type values.
var reflectTypeCarrier = types.NewPointer(types.NewNamed(types.NewTypeName(token.NoPos, nil, "reflect.rtype", nil), types.NewStruct(nil, nil), nil))

// typeHandle returns one opaque handle per distinct type, so that
// reflect.TypeOf(a) == reflect.TypeOf(b) is pointer identity.
func (m *Machine) typeHandle(t types.Type) *Opaque {
	if m.typeHandles == nil {
		m.typeHandles = map[string]*Opaque{}
	}
	k := types.TypeString(t, nil)
	if o, ok := m.typeHandles[k]; ok {
		return o
	}
	o := &Opaque{Tag: "reflect.Type", Data: t}
	m.typeHandles[k] = o
	return o
}
