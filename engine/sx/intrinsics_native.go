package sx

import (
	"golang.org/x/tools/go/ssa"
)

// Init-time stubs for values of foreign types. They are opaque handles: they
// can be stored and passed around; any inspection aborts the path (or, during
// init, poisons the dependent value).
func init() {
	opaque := func(tag string) Intrinsic {
		return func(m *Machine, fr *frame, fn *ssa.Function, args []Value) Value {
			return &Opaque{Tag: tag, Data: args}
		}
	}
	register("reflect.TypeOf", func(m *Machine, fr *frame, fn *ssa.Function, args []Value) Value {
		iv, _ := args[0].(Iface)
		return &Opaque{Tag: "reflect.Type", Data: iv.T}
	})
	register("internal/reflectlite.TypeOf", func(m *Machine, fr *frame, fn *ssa.Function, args []Value) Value {
		iv, _ := args[0].(Iface)
		return &Opaque{Tag: "reflect.Type", Data: iv.T}
	})
	register("regexp.MustCompile", opaque("*regexp.Regexp"))
	register("time.Date", opaque("time.Time"))
	register("time.Unix", opaque("time.Time"))
	register("(time.Time).UTC", opaque("time.Time"))
	register("time.LoadLocation", func(m *Machine, fr *frame, fn *ssa.Function, args []Value) Value {
		return Tuple{&Opaque{Tag: "*time.Location"}, Iface{}}
	})
	register("os.Getenv", func(m *Machine, fr *frame, fn *ssa.Function, args []Value) Value {
		return Str{} // stub contract: the environment is empty
	})
	register("os.LookupEnv", func(m *Machine, fr *frame, fn *ssa.Function, args []Value) Value {
		return Tuple{Str{}, m.F.False}
	})
	register("go.opentelemetry.io/otel/trace.NewNoopTracerProvider", opaque("trace.TracerProvider"))
	register("go.opentelemetry.io/otel/trace/noop.NewTracerProvider", opaque("trace.TracerProvider"))
}

func init() {
	register("github.com/cockroachdb/apd/v3.noescape", func(m *Machine, fr *frame, fn *ssa.Function, args []Value) Value { return args[0] })
}
