package sx

import (
	"encoding/hex"
	"fmt"
	"go/types"
	"strconv"
	"strings"

	"golang.org/x/tools/go/ssa"

	"verif/engine/sym"
)

func strArg(m *Machine, v Value, what string) string {
	s, ok := v.(Str)
	if !ok {
		m.abort("internal", "%s: expected string, got %T", what, v)
	}
	c, ok := s.Concrete()
	if !ok {
		m.abort("internal", "%s: name must be concrete", what)
	}
	return c
}

func intArg(m *Machine, v Value, what string) int {
	t, ok := v.(T)
	if !ok || !t.IsConst() {
		m.abort("internal", "%s: expected concrete int, got %s", what, describe(v))
	}
	return int(t.SignedVal())
}

func (m *Machine) ndVar(name string, w int) T {
	if v, ok := m.ndVars[name]; ok {
		return v
	}
	if m.Conf.ConcreteSet {
		val := m.Conf.Concrete[name]
		var t T
		if w == 0 {
			t = m.F.Bool(val&1 != 0)
		} else {
			t = m.F.Const(w, val)
		}
		m.ndVars[name] = t
		return t
	}
	v := m.F.Var("nd!"+name, w)
	m.ndVars[name] = v
	return v
}

func init() {
	nd := NdPath + "."
	scalar := func(w int) Intrinsic {
		return func(m *Machine, fr *frame, fn *ssa.Function, args []Value) Value {
			return m.ndVar(strArg(m, args[0], fn.Name()), w)
		}
	}
	register(nd+"Bool", scalar(0))
	for _, p := range []struct {
		n string
		w int
	}{{"Int8", 8}, {"Int16", 16}, {"Int32", 32}, {"Int64", 64}, {"Int", 64}, {"Uint8", 8}, {"Uint16", 16}, {"Uint32", 32}, {"Uint64", 64}, {"Uint", 64}} {
		register(nd+p.n, scalar(p.w))
	}
	register(nd+"Bytes", func(m *Machine, fr *frame, fn *ssa.Function, args []Value) Value {
		name := strArg(m, args[0], "nd.Bytes")
		n := intArg(m, args[1], "nd.Bytes")
		out := make([]Value, n, n)
		for i := range out {
			out[i] = m.ndVar(name+"["+strconv.Itoa(i)+"]", 8)
		}
		return Slice{V: out}
	})
	register(nd+"String", func(m *Machine, fr *frame, fn *ssa.Function, args []Value) Value {
		name := strArg(m, args[0], "nd.String")
		n := intArg(m, args[1], "nd.String")
		out := make([]T, n)
		for i := range out {
			out[i] = m.ndVar(name+"["+strconv.Itoa(i)+"]", 8)
		}
		return m.mkStr(out)
	})
	intRange := func(m *Machine, name string, lo, hi int) Value {
		if hi < lo {
			m.abort("internal", "nd.IntRange %s: empty range", name)
		}
		if v, ok := m.choices[name]; ok {
			return m.F.Const(64, uint64(v))
		}
		var v int
		if m.Conf.ConcreteSet {
			x, ok := m.Conf.Concrete[name]
			v = int(int64(x))
			if !ok || v < lo || v > hi {
				v = lo
			}
		} else {
			v = lo + m.Fork(hi-lo+1)
		}
		m.choices[name] = int64(v)
		return m.F.Const(64, uint64(int64(v)))
	}
	register(nd+"IntRange", func(m *Machine, fr *frame, fn *ssa.Function, args []Value) Value {
		return intRange(m, strArg(m, args[0], "nd.IntRange"), intArg(m, args[1], "lo"), intArg(m, args[2], "hi"))
	})
	register(nd+"Pick", func(m *Machine, fr *frame, fn *ssa.Function, args []Value) Value {
		return intRange(m, strArg(m, args[0], "nd.Pick"), 0, intArg(m, args[1], "n")-1)
	})
	register(nd+"Assume", func(m *Machine, fr *frame, fn *ssa.Function, args []Value) Value {
		m.Assume(args[0].(T))
		return nil
	})
	register(nd+"Assert", func(m *Machine, fr *frame, fn *ssa.Function, args []Value) Value {
		where := ""
		if fr != nil {
			where = fr.fn.Name()
		}
		m.Assert(strArg(m, args[0], "nd.Assert"), args[1].(T), where)
		return nil
	})
	register(nd+"Reach", func(m *Machine, fr *frame, fn *ssa.Function, args []Value) Value {
		m.reached[strArg(m, args[0], "nd.Reach")] = true
		return nil
	})
	register(nd+"Observe", func(m *Machine, fr *frame, fn *ssa.Function, args []Value) Value {
		var sb strings.Builder
		for i, a := range args[0].(Slice).V {
			if i > 0 {
				sb.WriteByte(' ')
			}
			sb.WriteString(m.fmtObserve(a))
		}
		m.observes = append(m.observes, sb.String())
		return nil
	})
	register(nd+"Fmt", func(m *Machine, fr *frame, fn *ssa.Function, args []Value) Value {
		return Str{S: m.fmtObserve(args[0])}
	})
}

// fmtObserve renders a value like zzverifnd.Fmt; symbolic parts render as "?".
func (m *Machine) fmtObserve(v Value) string {
	iv, ok := v.(Iface)
	if !ok {
		return "?" + fmt.Sprintf("%T", v)
	}
	if iv.T == nil {
		return "nil"
	}
	if types.Implements(iv.T, errorIface) || types.Implements(types.NewPointer(iv.T), errorIface) {
		if _, isBasic := iv.T.Underlying().(*types.Basic); !isBasic {
			return "err"
		}
	}
	switch u := iv.T.(type) {
	case *types.Basic:
		switch {
		case u.Info()&types.IsBoolean != 0:
			t := iv.V.(T)
			if !t.IsConst() {
				return "?sym"
			}
			if t.Val != 0 {
				return "true"
			}
			return "false"
		case u.Info()&types.IsInteger != 0:
			t, ok := iv.V.(T)
			if !ok || !t.IsConst() {
				return "?sym"
			}
			if u.Info()&types.IsUnsigned != 0 {
				return strconv.FormatUint(t.Val, 10)
			}
			return strconv.FormatInt(t.SignedVal(), 10)
		case u.Info()&types.IsString != 0:
			s, ok := iv.V.(Str).Concrete()
			if !ok {
				return "?sym"
			}
			return "s:" + hex.EncodeToString([]byte(s))
		}
	case *types.Slice:
		if b, ok := u.Elem().(*types.Basic); ok && b.Kind() == types.Uint8 {
			s := iv.V.(Slice)
			if s.V == nil {
				return "b:nil"
			}
			raw := make([]byte, len(s.V))
			for i, e := range s.V {
				t := e.(T)
				if !t.IsConst() {
					return "?sym"
				}
				raw[i] = byte(t.Val)
			}
			return "b:" + hex.EncodeToString(raw)
		}
	}
	return "?" + typeStr(iv.T)
}

var errorIface = types.Universe.Lookup("error").Type().Underlying().(*types.Interface)

var _ = sym.OpAdd

func init() {
	nd := NdPath + "."
	register(nd+"And", func(m *Machine, fr *frame, fn *ssa.Function, args []Value) Value {
		return m.F.And(args[0].(T), args[1].(T))
	})
	register(nd+"Or", func(m *Machine, fr *frame, fn *ssa.Function, args []Value) Value {
		return m.F.Or(args[0].(T), args[1].(T))
	})
	register(nd+"Implies", func(m *Machine, fr *frame, fn *ssa.Function, args []Value) Value {
		return m.F.Implies(args[0].(T), args[1].(T))
	})
	register(nd+"Iff", func(m *Machine, fr *frame, fn *ssa.Function, args []Value) Value {
		return m.F.Eq(args[0].(T), args[1].(T))
	})
	register(nd+"Tier", func(m *Machine, fr *frame, fn *ssa.Function, args []Value) Value {
		return m.F.Const(64, uint64(m.Conf.Tier))
	})
	register(nd+"Bound", func(m *Machine, fr *frame, fn *ssa.Function, args []Value) Value {
		if m.Conf.Tier == 1 {
			return args[1]
		}
		return args[0]
	})
}
