package sx

import "strings"

// Outcome summarises how a path ended, for conformance comparison:
// ok | assert-failed (detail = ids) | assume-failed | panic | other kinds.
func (pr PathResult) Outcome() (string, string) {
	switch pr.End.kind {
	case "done":
		return "ok", ""
	case "panic":
		return "panic", pr.Panic
	case "infeasible":
		if len(pr.CEs) > 0 {
			ids := make([]string, 0, len(pr.CEs))
			for _, ce := range pr.CEs {
				ids = append(ids, ce.ID)
			}
			return "assert-failed", strings.Join(ids, ",")
		}
		return "assume-failed", ""
	}
	return pr.End.kind, pr.End.detail
}
