package sx

import (
	"go/types"

	"golang.org/x/tools/go/ssa"
)

// In-memory model of the few file operations the engine's INTO OUTFILE /
// DUMPFILE code performs. A path keeps its own private "file system": a map
// from file name to content (bytes may be symbolic). Only regular files, no
// directories, permissions or links. Natively (conformance runs, replays) the
// same harness uses the real file system under a private temporary name
// (nd.TempPath).
//
//	os.Stat(name)                  error iff the file does not exist; a FileInfo is not modelled
//	os.OpenFile(name, flags, perm) creates the file (O_CREATE; O_EXCL respected), handle for writing
//	os.Create(name)                creates or truncates
//	(*os.File).WriteString/Write   append to the content
//	(*os.File).Close/Sync          no-ops
//	os.ReadFile(name)              the content
//	os.Remove(name)                deletes
type memFile struct {
	data []T
}

func (m *Machine) fs() map[string]*memFile {
	if !m.inPath {
		m.unsupported("file operation during package initialisation")
	}
	if m.files == nil {
		m.files = map[string]*memFile{}
		m.fileOf = map[Ptr]*memFile{}
	}
	return m.files
}

func (m *Machine) fileName(v Value, what string) string {
	s, ok := v.(Str)
	if ok {
		if c, ok2 := m.concreteStr(s); ok2 {
			return c
		}
	}
	m.unsupported("%s with a symbolic file name", what)
	return ""
}

func (m *Machine) concreteStr(s Str) (string, bool) {
	bs := m.strBytes(s)
	out := make([]byte, len(bs))
	for i, t := range bs {
		if !t.IsConst() {
			return "", false
		}
		out[i] = byte(t.Val)
	}
	return string(out), true
}

func (m *Machine) newFileHandle(fn *ssa.Function, f *memFile) Value {
	pt := fn.Signature.Results().At(0).Type().(*types.Pointer)
	p := new(Value)
	*p = m.zero(pt.Elem())
	m.fileOf[p] = f
	return p
}

func (m *Machine) handleFile(v Value, what string) *memFile {
	p, ok := v.(Ptr)
	if !ok || p == nil || m.fileOf[p] == nil {
		m.unsupported("%s on an *os.File that is not a model file", what)
	}
	return m.fileOf[p]
}

func init() {
	noEnt := func(m *Machine, fr *frame, op, name string) Value {
		return m.newError(fr, Str{S: op + " " + name + ": no such file or directory"})
	}
	register("os.Stat", func(m *Machine, fr *frame, fn *ssa.Function, args []Value) Value {
		name := m.fileName(args[0], "os.Stat")
		if _, ok := m.fs()[name]; ok {
			m.unsupported("os.Stat of an existing model file (FileInfo is not modelled)")
		}
		return Tuple{Iface{}, noEnt(m, fr, "stat", name)}
	})
	register("os.OpenFile", func(m *Machine, fr *frame, fn *ssa.Function, args []Value) Value {
		name := m.fileName(args[0], "os.OpenFile")
		ft, ok := args[1].(T)
		if !ok || !ft.IsConst() {
			m.unsupported("os.OpenFile with symbolic flags")
		}
		flags := int(ft.Val)
		const oCreate, oExcl, oTrunc = 0x40, 0x80, 0x200 // linux values of os.O_CREATE, O_EXCL, O_TRUNC
		fs := m.fs()
		f, exists := fs[name]
		switch {
		case exists && flags&oCreate != 0 && flags&oExcl != 0:
			return Tuple{Ptr(nil), m.newError(fr, Str{S: "open " + name + ": file exists"})}
		case !exists && flags&oCreate == 0:
			return Tuple{Ptr(nil), noEnt(m, fr, "open", name)}
		case !exists:
			f = &memFile{}
			fs[name] = f
		case flags&oTrunc != 0:
			f.data = nil
		}
		return Tuple{m.newFileHandle(fn, f), Iface{}}
	})
	register("os.Create", func(m *Machine, fr *frame, fn *ssa.Function, args []Value) Value {
		name := m.fileName(args[0], "os.Create")
		f := &memFile{}
		m.fs()[name] = f
		return Tuple{m.newFileHandle(fn, f), Iface{}}
	})
	write := func(what string) Intrinsic {
		return func(m *Machine, fr *frame, fn *ssa.Function, args []Value) Value {
			m.fs()
			f := m.handleFile(args[0], what)
			bs := m.seqBytes(args[1])
			f.data = append(append([]T(nil), f.data...), bs...)
			return Tuple{m.F.Const(64, uint64(len(bs))), Iface{}}
		}
	}
	register("(*os.File).WriteString", write("(*os.File).WriteString"))
	register("(*os.File).Write", write("(*os.File).Write"))
	for _, n := range []string{"(*os.File).Close", "(*os.File).Sync"} {
		name := n
		register(name, func(m *Machine, fr *frame, fn *ssa.Function, args []Value) Value {
			m.fs()
			m.handleFile(args[0], name)
			return Iface{}
		})
	}
	register("os.ReadFile", func(m *Machine, fr *frame, fn *ssa.Function, args []Value) Value {
		name := m.fileName(args[0], "os.ReadFile")
		f, ok := m.fs()[name]
		if !ok {
			return Tuple{Slice{}, noEnt(m, fr, "open", name)}
		}
		vs := make([]Value, len(f.data))
		for i, b := range f.data {
			vs[i] = b
		}
		return Tuple{Slice{V: vs}, Iface{}}
	})
	register("os.Remove", func(m *Machine, fr *frame, fn *ssa.Function, args []Value) Value {
		name := m.fileName(args[0], "os.Remove")
		fs := m.fs()
		if _, ok := fs[name]; !ok {
			return noEnt(m, fr, "remove", name)
		}
		delete(fs, name)
		return Iface{}
	})
	// nd.TempPath(name): a private file name. Natively a fresh name under the
	// temporary directory; in the model the name itself.
	register(NdPath+".TempPath", func(m *Machine, fr *frame, fn *ssa.Function, args []Value) Value {
		name := m.fileName(args[0], "nd.TempPath")
		return Str{S: "/zzverif-tmp/" + name}
	})
	// flatbuffers' only use of unsafe: []byte -> string without a copy
	register("github.com/dolthub/flatbuffers/v23/go.byteSliceToString", func(m *Machine, fr *frame, fn *ssa.Function, args []Value) Value {
		return m.mkStr(m.seqBytes(args[0]))
	})
}
